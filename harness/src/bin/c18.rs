//! C18 — element containers never duplicate, leak or touch a moved-out element.
#![allow(dropping_copy_types, clippy::all)]
use stateright::{Checker, Model, Property};
use std::borrow::{Borrow, BorrowMut};
use std::collections::hash_map::DefaultHasher;
use std::fmt::Debug;
use std::hash::{Hash, Hasher};
use std::marker::PhantomData;
use std::sync::atomic::{AtomicU64, Ordering::Relaxed};
use std::sync::Arc;
use vx::matx::{cm, rm};
use vx::tok::{self, St, Tok};
use vx::vecs::*;
use vx::*;

#[derive(Clone, Debug, PartialEq, Eq, Hash)]
enum S { Live { f: u8, b: u8 }, Dropped { f: u8, b: u8 }, Bad { class: &'static str, detail: String } }
#[derive(Clone, Copy, Debug, PartialEq, Eq, Hash)]
enum Act { Next, NextBack, Len, Observe, Drop,
    /// `nth(k)` / `nth_back(k)` with k >= 1: k elements are consumed (dropped) BY THE ITERATOR, the next one is yielded
    Nth(u8), NthBack(u8),
    /// consuming adaptors that end the iterator's life: `count()`, `last()`, `rev().collect()`
    Count, Last, RevCollect,
    /// (second audit) `fold` / `rfold` called directly (an implementation may override them apart from `next`/`next_back`), and the
    /// same with a closure that panics on the SECOND element it receives: the iterator is then dropped by unwinding in the middle
    /// of the traversal ("dropping it at any moment")
    Fold, RFold, FoldPanic, RFoldPanic }
/// skip count code 255 stands for `usize::MAX` (cursor arithmetic of an overriding `nth` must not overflow)
const K_MAX: u8 = 255;
fn skip_of(k: u8) -> usize { if k == K_MAX { usize::MAX } else { k as usize } }

/// Build a fresh real iterator over fresh tokens 0..N, pull `f` from the front and `b` from the back,
/// checking every pull against the reference (a deque of ids). Returns the iterator and the pulled tokens.
fn replay<V>(f: usize, b: usize) -> Result<(V::IntoIter, Vec<Tok>), (&'static str, String)>
where V: VecN<Tok> + IntoIterator<Item = Tok>, V::IntoIter: DoubleEndedIterator + ExactSizeIterator {
    tok::reset();
    let n = V::N;
    let v = V::from_elems((0..n).map(|_| Tok::new()).collect());
    let mut it = v.into_iter();
    let mut held = Vec::new();
    for i in 0..f { match it.next() { Some(t) if t.id as usize == i => { tok::mark_yielded(t.id); held.push(t) } o => return Err(("wrong-element-from-next", format!("pull #{} from the front gave {:?}", i, o.map(|t| t.id)))) } }
    for i in 0..b { match it.next_back() { Some(t) if t.id as usize == n - 1 - i => { tok::mark_yielded(t.id); held.push(t) } o => return Err(("wrong-element-from-next_back", format!("pull #{} from the back gave {:?}", i, o.map(|t| t.id)))) } }
    Ok((it, held))
}
/// After everything is gone: each id dropped exactly once, no ledger fault.
fn ledger_balanced(n: usize) -> Result<(), (&'static str, String)> {
    if let Some(f) = tok::faults().into_iter().next() { return Err(("ledger-fault", f)); }
    let st = tok::states();
    for id in 0..n { if st[id] != St::Dropped { return Err(("element-leaked", format!("element {} was never dropped", id))); } }
    Ok(())
}

/// (second audit) The state LEFT BEHIND by a pull beyond exhaustion: the other end, the same end again, the length reports and the
/// observation set must all still see an empty live range (a cursor bumped before the emptiness test only shows on the second call).
fn after_none<I>(it: &mut I, first: &str) -> Result<(), (&'static str, String)>
where I: DoubleEndedIterator<Item = Tok> + ExactSizeIterator + Debug + PartialEq + Hash {
    for round in 0..2 {
        if let Some(t) = it.next_back() { return Err(("wrong-element-from-next_back", format!("exhausted iterator: after {}() = None (probe round {}), next_back() yields element {}", first, round, t.id))); }
        if let Some(t) = it.next() { return Err(("wrong-element-from-next", format!("exhausted iterator: after {}() = None (probe round {}), next() yields element {}", first, round, t.id))); }
        let (l, h) = (it.len(), it.size_hint());
        if l != 0 || h != (0, Some(0)) { return Err(("wrong-length-report", format!("exhausted iterator: after {}() = None (probe round {}): len() = {}, size_hint() = {:?}", first, round, l, h))); }
    }
    tok::set_watch(true);
    let _ = format!("{:?}", it);
    #[allow(clippy::eq_op)] let _ = *it == *it;
    let mut h = DefaultHasher::new(); it.hash(&mut h); let _ = h.finish();
    tok::set_watch(false);
    if let Some(fl) = tok::faults().into_iter().next() { return Err(("safe-observation-reads-moved-out-element", format!("exhausted iterator after {}() = None: {}", first, fl))); }
    Ok(())
}

/// One transition on the real iterator, compared with the reference model.
fn step<V>(f: u8, b: u8, a: Act) -> S
where V: VecN<Tok> + IntoIterator<Item = Tok>, V::IntoIter: DoubleEndedIterator + ExactSizeIterator + Debug + PartialEq + Hash {
    let n = V::N;
    let (fu, bu) = (f as usize, b as usize);
    let bad = |(class, detail): (&'static str, String)| S::Bad { class, detail };
    // a panicking closure makes `fold` unwind with the iterator inside it; if the iterator's cursors are already wrong, its Drop
    // panics during that unwinding and the process aborts without a verdict.  So the panicking variants run only in states where
    // the same walk without the panic (fold, then the two pulls and the drop that the panicking walk performs) is clean; otherwise
    // that earlier violation is the verdict for this transition.
    if matches!(a, Act::FoldPanic | Act::RFoldPanic) {
        let back = matches!(a, Act::RFoldPanic);
        if let r @ S::Bad { .. } = step::<V>(f, b, if back { Act::RFold } else { Act::Fold }) { return r; }
        let (mut pf, mut pb) = (f, b);
        for _ in 0..2usize.min(V::N - fu - bu) {
            match step::<V>(pf, pb, if back { Act::NextBack } else { Act::Next }) { r @ S::Bad { .. } => return r, _ => {} }
            if back { pb += 1 } else { pf += 1 }
        }
        if let r @ S::Bad { .. } = step::<V>(pf, pb, Act::Drop) { return r; }
    }
    let (it, mut held) = match replay::<V>(fu, bu) { Ok(x) => x, Err(e) => return bad(e) };
    // the iterator is only ever dropped explicitly: if the real code panics with its cursors out of order, unwinding must not run its
    // Drop a second time on the broken state (a panic inside a panic would abort the explorer instead of giving a verdict)
    let mut it = std::mem::ManuallyDrop::new(it);
    macro_rules! take { ($it:expr) => { std::mem::ManuallyDrop::into_inner($it) } }
    let rem = n - fu - bu;
    let mut next = S::Live { f, b };
    match a {
        Act::Next => {
            match (it.next(), rem) {
                (None, 0) => { if let Err(e) = after_none(&mut *it, "next") { return bad(e); } }
                (Some(t), r) if r > 0 && t.id as usize == fu => { tok::mark_yielded(t.id); held.push(t); next = S::Live { f: f + 1, b }; }
                (o, _) => return bad(("wrong-element-from-next", format!("remaining {}, expected {:?}, got {:?}", rem, if rem > 0 { Some(fu) } else { None }, o.map(|t| t.id)))),
            }
        }
        Act::NextBack => {
            match (it.next_back(), rem) {
                (None, 0) => { if let Err(e) = after_none(&mut *it, "next_back") { return bad(e); } }
                (Some(t), r) if r > 0 && t.id as usize == n - 1 - bu => { tok::mark_yielded(t.id); held.push(t); next = S::Live { f, b: b + 1 }; }
                (o, _) => return bad(("wrong-element-from-next_back", format!("remaining {}, got {:?}", rem, o.map(|t| t.id)))),
            }
        }
        Act::Len => {
            let (l, h) = (it.len(), it.size_hint());
            if l != rem || h != (rem, Some(rem)) { return bad(("wrong-length-report", format!("remaining {}, len() = {}, size_hint() = {:?}", rem, l, h))); }
        }
        Act::Observe => {
            tok::set_watch(true);
            let _ = format!("{:?}", *it);
            #[allow(clippy::eq_op)]
            let _ = *it == *it;
            let mut h = DefaultHasher::new(); (*it).hash(&mut h); let _ = h.finish();
            // the other formatting / comparison forms: pretty-printing Debug, `!=`, and a hash of a borrowed iterator
            let _ = format!("{:#?}", *it);
            #[allow(clippy::eq_op)]
            let _ = *it != *it;
            let mut h = DefaultHasher::new(); (&*it).hash(&mut h); let _ = h.finish();
            tok::set_watch(false);
            if let Some(fl) = tok::faults().into_iter().next() { return bad(("safe-observation-reads-moved-out-element", fl)); }
        }
        Act::Nth(k) | Act::NthBack(k) => {
            let (k, front) = (skip_of(k), matches!(a, Act::Nth(_)));
            let got = if front { it.nth(k) } else { it.nth_back(k) };
            let want = if rem > k { Some(if front { fu + k } else { n - 1 - bu - k }) } else { None };
            if got.as_ref().map(|t| t.id as usize) != want { return bad(("wrong-element-from-nth", format!("remaining {}, {}({}) gave {:?}, the reference deque gives {:?}", rem, if front { "nth" } else { "nth_back" }, k, got.map(|t| t.id), want))); }
            let consumed = k.saturating_add(1).min(rem);
            let yielded_now = got.as_ref().map(|t| t.id as usize);
            if let Some(t) = got { tok::mark_yielded(t.id); held.push(t); }
            let rem2 = rem - consumed;
            if it.len() != rem2 || it.size_hint() != (rem2, Some(rem2)) { return bad(("wrong-length-report", format!("after {}({}) on {} remaining: len() = {}, size_hint() = {:?}, want {}", if front { "nth" } else { "nth_back" }, k, rem, it.len(), it.size_hint(), rem2))); }
            // nothing that was skipped may be handed out afterwards: drain the rest against the reference
            let (lo, hi) = if front { (fu + consumed, n - bu) } else { (fu, n - bu - consumed) };
            for id in lo..hi { match it.next() { Some(t) if t.id as usize == id => { tok::mark_yielded(t.id); held.push(t) } o => return bad(("wrong-element-from-next", format!("draining after {}({}): expected {}, got {:?}", if front { "nth" } else { "nth_back" }, k, id, o.map(|t| t.id)))) } }
            if let Some(t) = it.next() { return bad(("wrong-element-from-next", format!("iterator yields element {} after it should be exhausted (after nth)", t.id))); }
            drop(take!(it));
            let st = tok::states();
            let skipped = if front { fu..fu + consumed } else { n - bu - consumed..n - bu };
            for id in skipped { if Some(id) != yielded_now && st[id] != St::Dropped { return bad(("nth-leaks-skipped-element", format!("element {} was skipped by {}({}) and never dropped", id, if front { "nth" } else { "nth_back" }, k))); } }
            for t in &held { if st[t.id as usize] == St::Dropped { return bad(("drop-drops-yielded-element", format!("element {} was yielded to the caller and dropped by the iterator as well", t.id))); } }
            if let Some(fl) = tok::faults().into_iter().next() { return bad(("ledger-fault", fl)); }
            drop(held);
            if let Err(e) = ledger_balanced(n) { return bad(e); }
            return if front { S::Live { f: f + consumed as u8, b } } else { S::Live { f, b: b + consumed as u8 } };
        }
        Act::Count | Act::Last | Act::RevCollect => {
            let live: Vec<usize> = (fu..n - bu).collect();
            let mut kept: Vec<Tok> = Vec::new();
            match a {
                Act::Count => { let c = take!(it).count(); if c != rem { return bad(("count-disagrees-with-remaining", format!("count() = {}, remaining {}", c, rem))); } }
                Act::Last => { let l = take!(it).last(); if l.as_ref().map(|t| t.id as usize) != live.last().copied() { return bad(("wrong-element-from-last", format!("last() gave {:?}, want {:?}", l.map(|t| t.id), live.last()))); } if let Some(t) = l { tok::mark_yielded(t.id); kept.push(t); } }
                _ => { let v: Vec<Tok> = take!(it).rev().collect(); let g: Vec<usize> = v.iter().map(|t| t.id as usize).collect(); let w: Vec<usize> = live.iter().rev().copied().collect(); if g != w { return bad(("wrong-order-from-rev-collect", format!("rev().collect() gave {:?}, want {:?}", g, w))); } for t in &v { tok::mark_yielded(t.id); } kept = v; }
            }
            let st = tok::states();
            for id in 0..n {
                let in_hand = held.iter().chain(kept.iter()).any(|t| t.id as usize == id);
                if in_hand && st[id] == St::Dropped { return bad(("drop-drops-yielded-element", format!("element {} was yielded to the caller and dropped by the iterator as well ({:?})", id, a))); }
                if !in_hand && st[id] != St::Dropped { return bad(("drop-leaks-unyielded-element", format!("element {} was consumed by {:?} and never dropped", id, a))); }
            }
            if let Some(fl) = tok::faults().into_iter().next() { return bad(("ledger-fault", fl)); }
            drop(held); drop(kept);
            return match ledger_balanced(n) { Ok(()) => S::Dropped { f, b }, Err(e) => bad(e) };
        }
        Act::Fold | Act::RFold | Act::FoldPanic | Act::RFoldPanic => {
            let (back, boom) = (matches!(a, Act::RFold | Act::RFoldPanic), matches!(a, Act::FoldPanic | Act::RFoldPanic));
            let mut live: Vec<usize> = (fu..n - bu).collect(); if back { live.reverse(); }
            let mut kept: Vec<Tok> = Vec::new();
            let itv = take!(it);
            let r = { let kept = &mut kept; catch(move || {
                // the element is the closure's from the moment it is passed in: when the closure panics it is dropped by the closure's frame
                let f = |(), t: Tok| { tok::mark_yielded(t.id); if boom && kept.len() == 1 { panic!("c18: fold closure failed") } kept.push(t); };
                if back { itv.rfold((), f) } else { itv.fold((), f) }
            }) };
            let expect_panic = boom && rem >= 2;
            match &r {
                Ok(()) if expect_panic => return bad(("wrong-order-from-fold", format!("{:?} on {} remaining elements: the closure was never given a second element", a, rem))),
                Err(Caught::Panic(m)) if expect_panic && m.contains("c18: fold closure failed") => {}
                Ok(()) => {}
                Err(c) => return bad(("panic", format!("{:?} in state (front {}, back {}): {:?}", a, f, b, c))),
            }
            let g: Vec<usize> = kept.iter().map(|t| t.id as usize).collect();
            let w: Vec<usize> = if expect_panic { live[..1].to_vec() } else { live.clone() };
            if g != w { return bad(("wrong-order-from-fold", format!("{:?} handed the closure {:?}, want {:?}", a, g, w))); }
            let st = tok::states();
            for id in 0..n {
                let in_hand = held.iter().chain(kept.iter()).any(|t| t.id as usize == id);
                if in_hand && st[id] == St::Dropped { return bad(("drop-drops-yielded-element", format!("element {} was yielded to the caller and dropped by the iterator as well ({:?})", id, a))); }
                if !in_hand && st[id] != St::Dropped { return bad(("drop-leaks-unyielded-element", format!("element {} was consumed by {:?} and never dropped", id, a))); }
            }
            if let Some(fl) = tok::faults().into_iter().next() { return bad(("ledger-fault", format!("{:?}: {}", a, fl))); }
            drop(held); drop(kept);
            return match ledger_balanced(n) { Ok(()) => S::Dropped { f, b }, Err(e) => bad(e) };
        }
        Act::Drop => {
            drop(take!(it));
            let st = tok::states();
            for id in 0..n {
                let live = id >= fu && id < n - bu;
                if live && st[id] != St::Dropped { return bad(("drop-leaks-unyielded-element", format!("element {} in the live range was not dropped by the iterator", id))); }
                if !live && st[id] == St::Dropped { return bad(("drop-drops-yielded-element", format!("element {} was yielded to the caller and dropped by the iterator as well", id))); }
            }
            if let Some(fl) = tok::faults().into_iter().next() { return bad(("ledger-fault", fl)); }
            drop(held);
            return match ledger_balanced(n) { Ok(()) => S::Dropped { f, b }, Err(e) => bad(e) };
        }
    }
    // every transition also ends the iterator's life: the ledger must balance from every state
    drop(take!(it)); drop(held);
    if let Err(e) = ledger_balanced(n) { return bad(e); }
    next
}

struct IterModel<V> { transitions: Arc<AtomicU64>, ks: Vec<u8>, _p: PhantomData<fn() -> V> }
impl<V> Model for IterModel<V>
where V: VecN<Tok> + IntoIterator<Item = Tok> + 'static, V::IntoIter: DoubleEndedIterator + ExactSizeIterator + Debug + PartialEq + Hash {
    type State = S;
    type Action = Act;
    fn init_states(&self) -> Vec<S> { vec![S::Live { f: 0, b: 0 }] }
    fn actions(&self, s: &S, acts: &mut Vec<Act>) { if let S::Live { .. } = s {
        acts.extend([Act::Next, Act::NextBack, Act::Len, Act::Observe, Act::Drop, Act::Count, Act::Last, Act::RevCollect, Act::Fold, Act::RFold, Act::FoldPanic, Act::RFoldPanic]);
        for &k in &self.ks { acts.push(Act::Nth(k)); acts.push(Act::NthBack(k)); }
    } }
    fn next_state(&self, s: &S, a: Act) -> Option<S> {
        let S::Live { f, b } = s else { return None };
        self.transitions.fetch_add(1, Relaxed);
        // a panic of the real code (e.g. an out-of-range slice of the slot array) is a verdict, not a crash of the explorer
        Some(match catch(|| step::<V>(*f, *b, a)) { Ok(s) => s, Err(c) => S::Bad { class: "panic", detail: format!("{:?} in state (front {}, back {}): {:?}", a, f, b, c) } })
    }
    fn properties(&self) -> Vec<Property<Self>> { vec![Property::always("real iterator agrees with the reference deque and the ownership ledger", |_, s| !matches!(s, S::Bad { .. }))] }
}

struct McTotals { states: u64, transitions: u64, max_depth: usize, samples: Vec<Value> }

/// skip counts explored for nth/nth_back: quick {0, 1, 3, usize::MAX}; thorough every k in 0..=N (k = N always overshoots) and usize::MAX
fn nth_ks(n: usize, thorough: bool) -> Vec<u8> { let v: Vec<usize> = if thorough { (0..=n).collect() } else { vec![0, 1, 3] }; let mut v: Vec<u8> = v.into_iter().map(|k| k as u8).collect(); v.push(K_MAX); v }
/// fixed (non-nth) actions of a live state
const FIXED_ACTIONS: u64 = 12;

fn model_check<V>(s: &Section, tot: &mut McTotals)
where V: VecN<Tok> + IntoIterator<Item = Tok> + 'static, V::IntoIter: DoubleEndedIterator + ExactSizeIterator + Debug + PartialEq + Hash {
    let mut counts = Vec::new();
    let ks = nth_ks(V::N, s.thorough());
    for _run in 0..2 {
        let tr = Arc::new(AtomicU64::new(0));
        let ck = IterModel::<V> { transitions: tr.clone(), ks: ks.clone(), _p: PhantomData }.checker().threads(1).spawn_bfs().join();
        let (us, t, md) = (ck.unique_state_count() as u64, tr.load(Relaxed), ck.max_depth());
        if let Some(path) = ck.discoveries().into_values().next() {
            let acts: Vec<String> = path.clone().into_actions().iter().map(|a| format!("{:?}", a)).collect();
            let last = path.last_state().clone();
            if let S::Bad { class, detail } = last {
                s.violation_w(&format!("{}::IntoIter", V::NAME), class, json!({"history": acts, "what": detail, "n": V::N}), acts.len() as u64);
            }
            s.evals(t, t); tot.states += us; tot.transitions += t; tot.max_depth = tot.max_depth.max(md);
            return;
        }
        counts.push((us, t, md));
    }
    if counts[0] != counts[1] { s.rep.machinery_error(format!("{}: state/transition counts differ between two runs: {:?}", V::NAME, counts)); }
    let (us, t, md) = counts[0];
    let n = V::N as u64;
    let expect_states = (n + 1) * (n + 2) / 2 * 2; // every (f,b) live, and its Dropped twin
    if us != expect_states { s.rep.machinery_error(format!("{}: reached {} states, the (front,back) triangle and its dropped twins have {}", V::NAME, us, expect_states)); }
    // every live state has 12 fixed actions (8 before the second audit + fold, rfold and their panicking twins) + 2 per skip count; dropped twins have none
    let expect_transitions = (n + 1) * (n + 2) / 2 * (FIXED_ACTIONS + 2 * ks.len() as u64);
    if t != expect_transitions { s.rep.machinery_error(format!("{}: executed {} transitions, {} live states x {} actions = {}", V::NAME, t, (n + 1) * (n + 2) / 2, FIXED_ACTIONS + 2 * ks.len() as u64, expect_transitions)); }
    s.evals(t, t); s.class(V::NAME);
    tot.states += us; tot.transitions += t; tot.max_depth = tot.max_depth.max(md);
    if tot.samples.len() < 3 { tot.samples.push(json!({"type": V::NAME, "n": V::N, "history": ["Next", "NextBack", "Observe", "Len", "Drop"], "reaches_state": "Dropped{f:1,b:1}"})); }
    s.meta(V::NAME, json!({"states": us, "transitions": t, "max_depth": md, "fixpoint": true, "nth_skip_counts (255 = usize::MAX)": ks}));
}

// ---- unmerged histories (no state merging at all) -----------------------------------------------
fn histories<V>(s: &Section, max_len: usize)
where V: VecN<Tok> + IntoIterator<Item = Tok> + 'static, V::IntoIter: DoubleEndedIterator + ExactSizeIterator + Debug + PartialEq + Hash {
    let n = V::N;
    let acts = [Act::Next, Act::NextBack, Act::Len, Act::Observe];
    // observation of a (f,b) state reached along different orders must coincide: map (f,b) -> fingerprint
    let mut seen: std::collections::HashMap<(usize, usize), (Vec<u32>, Vec<Act>)> = Default::default();
    let mut seq: Vec<Act> = Vec::new();
    fn rec<V>(s: &Section, n: usize, acts: &[Act; 4], seq: &mut Vec<Act>, max_len: usize, seen: &mut std::collections::HashMap<(usize, usize), (Vec<u32>, Vec<Act>)>)
    where V: VecN<Tok> + IntoIterator<Item = Tok> + 'static, V::IntoIter: DoubleEndedIterator + ExactSizeIterator + Debug + PartialEq + Hash {
        // execute `seq` then drop, from scratch, on one real iterator
        tok::reset();
        let v = V::from_elems((0..n).map(|_| Tok::new()).collect());
        let mut it = v.into_iter();
        let mut dq: std::collections::VecDeque<u32> = (0..n as u32).collect();
        let mut held: Vec<Tok> = Vec::new();
        let site = format!("{}::IntoIter", V::NAME);
        let hist = |seq: &Vec<Act>| seq.iter().map(|a| format!("{:?}", a)).collect::<Vec<_>>();
        let mut ok = true;
        for a in seq.iter() {
            match a {
                Act::Next => { let (g, w) = (it.next(), dq.pop_front()); if g.as_ref().map(|t| t.id) != w { s.violation_w(&site, "wrong-element-from-next", json!({"history": hist(seq), "got": g.map(|t| t.id), "want": w}), seq.len() as u64); ok = false; break; } if let Some(t) = g { tok::mark_yielded(t.id); held.push(t); } }
                Act::NextBack => { let (g, w) = (it.next_back(), dq.pop_back()); if g.as_ref().map(|t| t.id) != w { s.violation_w(&site, "wrong-element-from-next_back", json!({"history": hist(seq), "got": g.map(|t| t.id), "want": w}), seq.len() as u64); ok = false; break; } if let Some(t) = g { tok::mark_yielded(t.id); held.push(t); } }
                Act::Len => { if it.len() != dq.len() || it.size_hint() != (dq.len(), Some(dq.len())) { s.violation_w(&site, "wrong-length-report", json!({"history": hist(seq)}), seq.len() as u64); ok = false; break; } }
                Act::Observe => { tok::set_watch(true); let _ = format!("{:?}", it); let mut h = DefaultHasher::new(); it.hash(&mut h); #[allow(clippy::eq_op)] let _ = it == it; tok::set_watch(false);
                    if let Some(fl) = tok::faults().into_iter().next() { s.violation_w(&site, "safe-observation-reads-moved-out-element", json!({"history": hist(seq), "what": fl}), seq.len() as u64); ok = false; break; } }
                _ => unreachable!(),
            }
        }
        s.eval(!seq.is_empty());
        if ok {
            let yielded: Vec<u32> = held.iter().map(|t| t.id).collect();
            drop(it);
            let st = tok::states();
            for id in 0..n { let live = dq.contains(&(id as u32)); if live != (st[id] == St::Dropped) { s.violation_w(&site, if live { "drop-leaks-unyielded-element" } else { "drop-drops-yielded-element" }, json!({"history": hist(seq), "element": id}), seq.len() as u64); } }
            drop(held);
            if let Err((c, d)) = ledger_balanced(n) { s.violation_w(&site, c, json!({"history": hist(seq), "what": d}), seq.len() as u64); }
            // differential: same (front, back) counts => same set of yielded elements, whatever the order
            let f = seq.iter().filter(|a| **a == Act::Next).count().min(n);
            let key = (f, yielded.len() - yielded.iter().filter(|&&id| (id as usize) < f).count().min(yielded.len()));
            let mut ys = yielded.clone(); ys.sort();
            let fronts_first = { let mut seen_back = false; seq.iter().all(|a| match a { Act::NextBack => { seen_back = true; true } Act::Next => !seen_back, _ => true }) };
            if fronts_first { seen.entry(key).or_insert((ys.clone(), seq.clone())); }
            if let Some((w, via)) = seen.get(&key) { if *w != ys && yielded.len() < n { s.violation_w(&site, "state-depends-on-pull-order", json!({"history": hist(seq), "other_history": hist(via), "yielded": ys, "other_yielded": w}), seq.len() as u64); } }
        }
        if seq.len() < max_len && ok { for a in acts { seq.push(*a); rec::<V>(s, n, acts, seq, max_len, seen); seq.pop(); } }
    }
    rec::<V>(s, n, &acts, &mut seq, max_len, &mut seen);
    s.class(V::NAME);
    if s.wants_sample() { s.sample(json!({"type": V::NAME, "history": ["NextBack", "Observe", "Next", "Len", "Next", "<drop>"], "max_length": max_len})); }
}

// ---- two iterators in different cursor states compared with each other ----------------------------
/// `a == b` / `a != b` for every ordered pair of cursor states of the stated set: neither operand's yielded elements may be read.
/// The second vector's values are shifted so that both live windows start with equal values (the comparison cannot stop at the
/// first element for a trivial reason).
fn compare_pairs<V>(s: &Section)
where V: VecN<Tok> + IntoIterator<Item = Tok> + 'static, V::IntoIter: DoubleEndedIterator + ExactSizeIterator + Debug + PartialEq + Hash {
    let n = V::N;
    let cur: Vec<usize> = if n <= 8 || s.thorough() { (0..=n).collect() } else { let mut v = vec![0, 1, 2, n / 2, n - 2, n - 1, n]; v.sort(); v.dedup(); v };
    let states: Vec<(usize, usize)> = cur.iter().flat_map(|&f| cur.iter().map(move |&b| (f, b))).filter(|&(f, b)| f + b <= n).collect();
    let site = format!("{}::IntoIter", V::NAME);
    let cnt = (states.len() * states.len()) as u64;
    let pair = |f1: usize, b1: usize, f2: usize, b2: usize| {
        tok::reset();
        let v1 = V::from_elems((0..n).map(|i| Tok::with_val(1000 + i as u32)).collect::<Vec<_>>());
        let v2 = V::from_elems((0..n).map(|i| Tok::with_val((1000 + i + f1 - f2) as u32)).collect::<Vec<_>>());
        let (mut a, mut b) = (v1.into_iter(), v2.into_iter());
        let mut held = Vec::new();
        for _ in 0..f1 { let t = a.next().unwrap(); tok::mark_yielded(t.id); held.push(t); }
        for _ in 0..b1 { let t = a.next_back().unwrap(); tok::mark_yielded(t.id); held.push(t); }
        for _ in 0..f2 { let t = b.next().unwrap(); tok::mark_yielded(t.id); held.push(t); }
        for _ in 0..b2 { let t = b.next_back().unwrap(); tok::mark_yielded(t.id); held.push(t); }
        tok::set_watch(true);
        let (e1, e2, n1) = (a == b, b == a, a != b);
        tok::set_watch(false);
        let differ = (f1, b1) != (f2, b2);
        s.eval(differ);
        if let Some(fl) = tok::faults().into_iter().next() {
            s.violation_w(&site, "comparison-of-two-iterators-reads-moved-out-element", json!({"n": n, "left(front,back pulls)": [f1, b1], "right(front,back pulls)": [f2, b2], "what": fl}), (f1 + b1 + f2 + b2) as u64);
        }
        if e1 != e2 || n1 == e1 { s.violation_w(&site, "comparison-not-symmetric-or-ne-not-the-negation-of-eq", json!({"n": n, "left": [f1, b1], "right": [f2, b2], "a==b": e1, "b==a": e2, "a!=b": n1}), (f1 + b1 + f2 + b2) as u64); }
        if s.wants_sample() && differ && f1 > 0 && b2 > 0 { s.sample(json!({"type": V::NAME, "left(front,back pulls)": [f1, b1], "right(front,back pulls)": [f2, b2], "a==b": e1})); }
        drop(a); drop(b); drop(held);
        if let Err((c, d)) = ledger_balanced(2 * n) { s.violation(&site, c, json!({"what": d, "left": [f1, b1], "right": [f2, b2]})); }
    };
    // thorough: the rows of the pair table run on the rayon pool (the ledger is thread-local and reset per pair)
    if s.thorough() { use rayon::prelude::*; states.par_iter().for_each(|&(f1, b1)| { for &(f2, b2) in &states { pair(f1, b1, f2, b2); } }); }
    else { for &(f1, b1) in &states { for &(f2, b2) in &states { pair(f1, b1, f2, b2); } } }
    s.class(V::NAME);
    s.meta(V::NAME, json!({"cursor_states": states.len(), "ordered_pairs": cnt}));
}

/// Run one block of checks; a panic of the real code inside it is a violation of class `panic`, not the end of the section.
fn guarded(s: &Section, label: String, f: impl FnOnce()) { if let Err(c) = catch(f) { s.violation(&label, "panic", json!({"what": format!("{:?}", c)})); } }

// ---- conversions move each element exactly once ---------------------------------------------------
fn ids(v: &[Tok]) -> Vec<u32> { v.iter().map(|t| t.id).collect() }
fn fresh(n: usize) -> Vec<Tok> { tok::reset(); (0..n).map(|_| Tok::new()).collect() }
fn no_drops_yet(s: &Section, site: &str) { let d = tok::dropped_ids(); if !d.is_empty() { s.violation(site, "element-dropped-during-conversion", json!({"dropped": d})); } if let Some(f) = tok::faults().into_iter().next() { s.violation(site, "ledger-fault", json!({"what": f})); } }
fn all_dropped_once(s: &Section, site: &str, n: usize) { if let Err((c, d)) = ledger_balanced(n) { s.violation(site, c, json!({"what": d})); } if tok::dropped_ids().len() != tok::count() { s.violation(site, "drop-count-mismatch", json!({"dropped": tok::dropped_ids().len(), "created": tok::count()})); } }

macro_rules! conv_vec { ($s:expr, $V:ident, $n:expr) => {{
    #[inline(never)] fn go(s: &Section) { const N: usize = $n; let name = <$V<Tok> as VecN<Tok>>::NAME;
    // From<[T;N]>
    { let site = format!("From<[T;{}]> for {}", N, name); s.eval(true);
      let a: [Tok; N] = fresh(N).try_into().ok().unwrap();
      let v = $V::from(a); no_drops_yet(s, &site);
      let e = v.into_elems(); if ids(&e) != (0..N as u32).collect::<Vec<_>>() { s.violation(&site, "wrong-order", json!({"got": ids(&e)})); }
      drop(e); all_dropped_once(s, &site, N); }
    // into_array
    { let site = format!("{}::into_array", name); s.eval(true);
      let v = <$V<Tok> as VecN<Tok>>::from_elems(fresh(N)); let a = v.into_array(); no_drops_yet(s, &site);
      if ids(&a) != (0..N as u32).collect::<Vec<_>>() { s.violation(&site, "wrong-order", json!({"got": ids(&a)})); }
      drop(a); all_dropped_once(s, &site, N); }
    // from_iter for every length 0..N+2
    for len in 0..=N + 2 { let site = format!("FromIterator for {}", name); s.eval(len != N);
      tok::reset(); let src: Vec<Tok> = (0..len).map(|_| Tok::new()).collect();
      let v: $V<Tok> = src.into_iter().collect();
      let e = v.into_elems();
      let got = ids(&e);
      for i in 0..N { if i < len.min(N) { if got[i] != i as u32 { s.violation(&site, "wrong-order", json!({"iterator_length": len, "got": got})); break; } } else if (got[i] as usize) < len { s.violation(&site, "tail-not-default", json!({"iterator_length": len, "got": got})); break; } }
      drop(e);
      if let Some(f) = tok::faults().into_iter().next() { s.violation(&site, "ledger-fault", json!({"iterator_length": len, "what": f})); }
      let st = tok::states(); if st.iter().any(|x| *x != St::Dropped) { s.violation(&site, "element-leaked", json!({"iterator_length": len})); } }
    // from_iter through `by_ref()` for every source length 0..N+3: the conversion takes exactly the elements it stores - what it
    // did not store is still in the source, in order, alive (an element pulled and then dropped was transferred zero times)
    for len in 0..=N + 3 { let site = format!("FromIterator for {} (source kept by the caller: by_ref)", name); s.eval(len > N);
      tok::reset(); let src: Vec<Tok> = (0..len).map(|_| Tok::new()).collect();
      let mut it = src.into_iter();
      let v: $V<Tok> = it.by_ref().collect();
      let early: Vec<u32> = tok::dropped_ids().into_iter().filter(|&d| (d as usize) < len).collect();
      if !early.is_empty() { s.violation(&site, "source-element-consumed-but-not-stored", json!({"source_length": len, "lanes": N, "dropped_during_collect": early})); }
      let rest: Vec<Tok> = it.collect();
      let want_rest: Vec<u32> = (N.min(len)..len).map(|i| i as u32).collect();
      if ids(&rest) != want_rest { s.violation(&site, "source-not-left-at-the-first-element-that-was-not-stored", json!({"source_length": len, "lanes": N, "rest_of_source": ids(&rest), "want": want_rest})); }
      let e = v.into_elems(); let got = ids(&e);
      for i in 0..N.min(len) { if got[i] != i as u32 { s.violation(&site, "wrong-order", json!({"source_length": len, "got": got})); break; } }
      drop(e); drop(rest);
      if let Some(f) = tok::faults().into_iter().next() { s.violation(&site, "ledger-fault", json!({"source_length": len, "what": f})); }
      let st = tok::states(); if st.iter().any(|x| *x != St::Dropped) { s.violation(&site, "element-leaked", json!({"source_length": len})); } }
    // one long source split into consecutive vectors through by_ref: the concatenation of what was stored is the source, in order
    { let site = format!("FromIterator for {} (one source split into three vectors)", name); s.eval(true);
      tok::reset(); let total = 2 * N + 1; let src: Vec<Tok> = (0..total).map(|_| Tok::new()).collect();
      let mut it = src.into_iter();
      let a: $V<Tok> = it.by_ref().collect(); let b: $V<Tok> = it.by_ref().collect(); let c: $V<Tok> = it.by_ref().collect();
      let mut got: Vec<u32> = Vec::new(); let (ea, eb, ec) = (a.into_elems(), b.into_elems(), c.into_elems());
      got.extend(ids(&ea)); got.extend(ids(&eb)); got.push(ec[0].id);
      if got != (0..total as u32).collect::<Vec<_>>() { s.violation(&site, "source-element-consumed-but-not-stored", json!({"source_length": total, "lanes": N, "stored_in_order": got})); }
      if it.next().is_some() { s.violation(&site, "source-not-left-at-the-first-element-that-was-not-stored", json!({"source_length": total})); }
      drop((ea, eb, ec));
      if let Some(f) = tok::faults().into_iter().next() { s.violation(&site, "ledger-fault", json!({"what": f})); }
      let st = tok::states(); if st.iter().any(|x| *x != St::Dropped) { s.violation(&site, "element-leaked", json!({})); } }
    // map and zip move each element once
    { let site = format!("{}::map", name); s.eval(true);
      let v = <$V<Tok> as VecN<Tok>>::from_elems(fresh(N)); let m = v.map(|t| (t, 0u8)); no_drops_yet(s, &site);
      let e = m.into_elems(); if e.iter().map(|p| p.0.id).collect::<Vec<_>>() != (0..N as u32).collect::<Vec<_>>() { s.violation(&site, "wrong-order", json!({})); } drop(e); all_dropped_once(s, &site, N); }
    { let site = format!("{}::zip", name); s.eval(true);
      let mut all = fresh(2 * N); let second = all.split_off(N);
      let (a, b) = (<$V<Tok> as VecN<Tok>>::from_elems(all), <$V<Tok> as VecN<Tok>>::from_elems(second));
      let z = a.zip(b); no_drops_yet(s, &site);
      let e = z.into_elems(); for (i, (x, y)) in e.iter().enumerate() { if x.id != i as u32 || y.id != (N + i) as u32 { s.violation(&site, "wrong-pairing", json!({"lane": i, "got": [x.id, y.id]})); break; } }
      drop(e); all_dropped_once(s, &site, 2 * N); }
    // slice views alias the storage in declaration order
    { let site = format!("{}::as_slice/as_mut_slice/Deref/AsRef/Borrow", name); s.eval(true);
      let mut v = <$V<u32> as VecN<u32>>::from_elems((0..N as u32).map(|i| 100 + i).collect());
      let base = &v as *const $V<u32> as *const u32;
      let views: [&[u32]; 4] = [v.as_slice(), &*v, <$V<u32> as AsRef<[u32]>>::as_ref(&v), <$V<u32> as std::borrow::Borrow<[u32]>>::borrow(&v)];
      for (k, sl) in views.iter().enumerate() { if sl.as_ptr() != base || sl.len() != N || sl.iter().copied().ne((0..N as u32).map(|i| 100 + i)) { s.violation(&site, "view-does-not-alias-storage-in-order", json!({"view": k, "len": sl.len()})); } }
      for i in 0..N { v.as_mut_slice()[i] = 500 + i as u32; }
      { let m: &mut [u32] = <$V<u32> as AsMut<[u32]>>::as_mut(&mut v); m[0] += 1000; }
      { let m: &mut [u32] = &mut *v; m[N - 1] += 2000; }
      let e = v.into_elems();
      let want: Vec<u32> = (0..N as u32).map(|i| 500 + i + if i == 0 { 1000 } else { 0 } + if i as usize == N - 1 { 2000 } else { 0 }).collect();
      if e != want { s.violation(&site, "write-through-view-not-visible-in-fields", json!({"got": e, "want": want})); }
      let v2 = <$V<Tok> as VecN<Tok>>::from_elems(fresh(N));
      if ids(v2.as_slice()) != (0..N as u32).collect::<Vec<_>>() || v2.iter().map(|t| t.id).ne(0..N as u32) { s.violation(&site, "wrong-order", json!({})); }
      drop(v2); all_dropped_once(s, &site, N); }
    s.class(name);
    } let s_: &Section = $s; guarded(s_, format!("conv_vec! {}", stringify!($V)), || go(s_));
}} }
macro_rules! conv_tuple { ($s:expr, $V:ident, [$($i:tt),*], $n:expr) => {{
    #[inline(never)] fn go(s: &Section) { const N: usize = $n; let name = <$V<Tok> as VecN<Tok>>::NAME;
    { let site = format!("{}::into_tuple", name); s.eval(true);
      let v = <$V<Tok> as VecN<Tok>>::from_elems(fresh(N)); let t = v.into_tuple(); no_drops_yet(s, &site);
      let got = vec![$(t.$i.id),*]; if got != (0..N as u32).collect::<Vec<_>>() { s.violation(&site, "wrong-order", json!({"got": got})); }
      drop(t); all_dropped_once(s, &site, N); }
    { let site = format!("From<tuple> for {}", name); s.eval(true);
      let mut it = fresh(N).into_iter(); let t = ($({ let _ = $i; it.next().unwrap() }),*);
      let v = $V::from(t); no_drops_yet(s, &site);
      let e = v.into_elems(); if ids(&e) != (0..N as u32).collect::<Vec<_>>() { s.violation(&site, "wrong-order", json!({"got": ids(&e)})); }
      drop(e); all_dropped_once(s, &site, N); }
    } let s_: &Section = $s; guarded(s_, format!("conv_tuple! {}", stringify!($V)), || go(s_));
}} }

macro_rules! conv_mat { ($s:expr, $M:ident, $n:expr, $lay:ident, $layname:expr, $lines:ident, $V:ident) => {{
    #[inline(never)] fn go(s: &Section) { const N: usize = $n; const NN: usize = N * N;
    let name = format!("Mat{}<{}>", N, $layname);
    // element (i,j) carries id i*N+j
    let build = || -> $lay::$M<Tok> {
        let mut t: Vec<Option<Tok>> = fresh(NN).into_iter().map(Some).collect();
        let line = |t: &mut Vec<Option<Tok>>, k: usize| -> $V<Tok> { <$V<Tok> as VecN<Tok>>::from_elems((0..N).map(|l| { let (i, j) = if $layname == "row" { (k, l) } else { (l, k) }; t[i * N + j].take().unwrap() }).collect()) };
        let lines: Vec<$V<Tok>> = (0..N).map(|k| line(&mut t, k)).collect();
        $lay::$M { $lines: <$V<$V<Tok>> as VecN<$V<Tok>>>::from_elems(lines) }
    };
    let decode = |m: $lay::$M<Tok>| -> Vec<Vec<u32>> { // [i][j]
        let lines: Vec<Vec<Tok>> = m.$lines.into_elems().into_iter().map(|l| l.into_elems()).collect();
        let mut out = vec![vec![0u32; N]; N];
        for (k, l) in lines.iter().enumerate() { for (x, t) in l.iter().enumerate() { let (i, j) = if $layname == "row" { (k, x) } else { (x, k) }; out[i][j] = t.id; } }
        out
    };
    let want_rows: Vec<u32> = (0..NN as u32).collect();
    let want_cols: Vec<u32> = (0..N).flat_map(|j| (0..N).map(move |i| (i * N + j) as u32)).collect();
    let want_ij: Vec<Vec<u32>> = (0..N).map(|i| (0..N).map(|j| (i * N + j) as u32).collect()).collect();
    { let site = format!("{}::into_row_array", name); s.eval(true); let a = build().into_row_array(); no_drops_yet(s, &site); if ids(&a) != want_rows { s.violation(&site, "wrong-order", json!({"got": ids(&a)})); } drop(a); all_dropped_once(s, &site, NN); }
    { let site = format!("{}::into_col_array", name); s.eval(true); let a = build().into_col_array(); no_drops_yet(s, &site); if ids(&a) != want_cols { s.violation(&site, "wrong-order", json!({"got": ids(&a)})); } drop(a); all_dropped_once(s, &site, NN); }
    { let site = format!("{}::into_row_arrays", name); s.eval(true); let a = build().into_row_arrays(); no_drops_yet(s, &site); let g: Vec<u32> = a.iter().flat_map(|r| r.iter().map(|t| t.id)).collect(); if g != want_rows { s.violation(&site, "wrong-order", json!({"got": g})); } drop(a); all_dropped_once(s, &site, NN); }
    { let site = format!("{}::into_col_arrays", name); s.eval(true); let a = build().into_col_arrays(); no_drops_yet(s, &site); let g: Vec<u32> = a.iter().flat_map(|r| r.iter().map(|t| t.id)).collect(); if g != want_cols { s.violation(&site, "wrong-order", json!({"got": g})); } drop(a); all_dropped_once(s, &site, NN); }
    { let site = format!("{}::from_row_array", name); s.eval(true); let a: [Tok; NN] = fresh(NN).try_into().ok().unwrap(); let m = $lay::$M::from_row_array(a); no_drops_yet(s, &site); let g = decode(m); if g != want_ij { s.violation(&site, "wrong-order", json!({"got": g})); } all_dropped_once(s, &site, NN); }
    { let site = format!("{}::from_col_array", name); s.eval(true); let a: [Tok; NN] = fresh(NN).try_into().ok().unwrap(); let m = $lay::$M::from_col_array(a); no_drops_yet(s, &site); let g = decode(m);
      let want_t: Vec<Vec<u32>> = (0..N).map(|i| (0..N).map(|j| (j * N + i) as u32).collect()).collect(); if g != want_t { s.violation(&site, "wrong-order", json!({"got": g})); } all_dropped_once(s, &site, NN); }
    { let site = format!("{}::from_row_arrays", name); s.eval(true); let mut it = fresh(NN).into_iter(); let a: [[Tok; N]; N] = std::array::from_fn(|_| std::array::from_fn(|_| it.next().unwrap())); let m = $lay::$M::from_row_arrays(a); no_drops_yet(s, &site); let g = decode(m); if g != want_ij { s.violation(&site, "wrong-order", json!({"got": g})); } all_dropped_once(s, &site, NN); }
    { let site = format!("{}::from_col_arrays", name); s.eval(true); let mut it = fresh(NN).into_iter(); let a: [[Tok; N]; N] = std::array::from_fn(|_| std::array::from_fn(|_| it.next().unwrap())); let m = $lay::$M::from_col_arrays(a); no_drops_yet(s, &site); let g = decode(m);
      let want_t: Vec<Vec<u32>> = (0..N).map(|i| (0..N).map(|j| (j * N + i) as u32).collect()).collect(); if g != want_t { s.violation(&site, "wrong-order", json!({"got": g})); } all_dropped_once(s, &site, NN); }
    s.class(&name);
    } let s_: &Section = $s; guarded(s_, format!("conv_mat! {} {} {}", stringify!($V), stringify!($M), stringify!($lay)), || go(s_));
}} }

// =====================================================================================================
// Additions after the clause-by-clause audit (out/AUDIT.md)
// =====================================================================================================

// ---- pull-only unmerged histories for wider vectors ---------------------------------------------------
/// Every sequence over {next, next_back} of length <= N+1 (so every order of draining, and one pull beyond exhaustion), each
/// executed from scratch on one real iterator with NO state merging; after every pull: len/size_hint and the observation set with
/// the ledger watching; then drop and the ledger. Sequences are numbered (length, bitmask) and run on the rayon pool
/// (the ledger is thread-local, every history resets its own).
fn pull_histories<V>(s: &Section)
where V: VecN<Tok> + IntoIterator<Item = Tok> + 'static, V::IntoIter: DoubleEndedIterator + ExactSizeIterator + Debug + PartialEq + Hash {
    use rayon::prelude::*;
    let n = V::N;
    let site = format!("{}::IntoIter", V::NAME);
    let total: u64 = (0..=n as u32 + 1).map(|l| 1u64 << l).sum();
    (0..=n + 1).into_par_iter().for_each(|len| {
        (0u64..1u64 << len).into_par_iter().for_each(|mask| {
            let hist = || (0..len).map(|i| if mask >> i & 1 == 0 { "Next" } else { "NextBack" }).collect::<Vec<_>>();
            let r = catch(|| {
                tok::reset();
                let v = V::from_elems((0..n).map(|_| Tok::new()).collect());
                let mut it = v.into_iter();
                let mut dq: std::collections::VecDeque<u32> = (0..n as u32).collect();
                let mut held: Vec<Tok> = Vec::new();
                for i in 0..len {
                    let back = mask >> i & 1 == 1;
                    let (g, w) = if back { (it.next_back(), dq.pop_back()) } else { (it.next(), dq.pop_front()) };
                    if g.as_ref().map(|t| t.id) != w { s.violation_w(&site, if back { "wrong-element-from-next_back" } else { "wrong-element-from-next" }, json!({"history": hist(), "step": i, "got": g.map(|t| t.id), "want": w}), len as u64); return; }
                    if let Some(t) = g { tok::mark_yielded(t.id); held.push(t); }
                    if it.len() != dq.len() || it.size_hint() != (dq.len(), Some(dq.len())) { s.violation_w(&site, "wrong-length-report", json!({"history": hist(), "step": i, "len": it.len(), "want": dq.len()}), len as u64); return; }
                    tok::set_watch(true);
                    let _ = format!("{:?}", it); let mut h = DefaultHasher::new(); it.hash(&mut h);
                    #[allow(clippy::eq_op)] let _ = it == it;
                    tok::set_watch(false);
                    if let Some(fl) = tok::faults().into_iter().next() { s.violation_w(&site, "safe-observation-reads-moved-out-element", json!({"history": hist(), "step": i, "what": fl}), len as u64); return; }
                }
                drop(it);
                let st = tok::states();
                for id in 0..n { let live = dq.contains(&(id as u32)); if live != (st[id] == St::Dropped) { s.violation_w(&site, if live { "drop-leaks-unyielded-element" } else { "drop-drops-yielded-element" }, json!({"history": hist(), "element": id}), len as u64); } }
                drop(held);
                if let Err((c, d)) = ledger_balanced(n) { s.violation_w(&site, c, json!({"history": hist(), "what": d}), len as u64); }
            });
            if let Err(c) = r { s.violation_w(&site, "panic", json!({"history": hist(), "what": format!("{:?}", c)}), len as u64); }
        });
    });
    s.evals(total, total - 1);
    s.class(V::NAME);
    s.meta(V::NAME, json!({"histories": total, "max_length": n + 1}));
    if s.wants_sample() { s.sample(json!({"type": V::NAME, "history": ["NextBack", "Next", "Next", "NextBack", "<drop>"], "after every pull": "len, size_hint, Debug/Hash/== with the ledger watching"})); }
}

// ---- element shapes ------------------------------------------------------------------------------------
// The property quantifies over "element types that are not Copy"; `Tok` is 8 bytes, align 4. The raw reads (ptr::read out of
// ManuallyDrop slots, MaybeUninit + transmute_unchecked in the matrices, slice::from_raw_parts) must be right for every size and
// alignment, including zero-sized droppable elements, so the same ledger runs over several shapes of element.
thread_local! { static ZC: std::cell::Cell<(u64, u64)> = const { std::cell::Cell::new((0, 0)) }; }
/// zero-sized, not Copy, with a Drop that counts
#[derive(Debug, PartialEq, Hash)]
struct Zst;
impl Drop for Zst { fn drop(&mut self) { let _ = ZC.try_with(|c| { let (a, b) = c.get(); c.set((a, b + 1)); }); } }
fn zst_counts() -> (u64, u64) { ZC.with(|c| c.get()) }
fn reset_all() { tok::reset(); ZC.with(|c| c.set((0, 0))); }
fn dropped_total() -> usize { tok::dropped_ids().len() + zst_counts().1 as usize }
fn balanced_all() -> Result<(), (&'static str, String)> {
    if let Some(f) = tok::faults().into_iter().next() { return Err(("ledger-fault", f)); }
    if let Some(id) = tok::states().iter().position(|x| *x != St::Dropped) { return Err(("element-leaked", format!("element {} was never dropped", id))); }
    let (c, d) = zst_counts();
    if d > c { return Err(("ledger-fault", format!("{} zero-sized elements created, {} dropped", c, d))); }
    if d < c { return Err(("element-leaked", format!("{} zero-sized elements created, only {} dropped", c, d))); }
    Ok(())
}

trait Payload: Sized + Debug + PartialEq + Hash { const NAME: &'static str; fn of(id: u32) -> Self; }
impl Payload for u8 { const NAME: &'static str = "(Tok,u8): 12 bytes"; fn of(id: u32) -> u8 { (id * 7 + 3) as u8 } }
impl Payload for u128 { const NAME: &'static str = "(Tok,u128): align 16"; fn of(id: u32) -> u128 { ((id as u128 + 1) << 100) | (id as u128 * 0x0001_0001_0001) } }
impl Payload for [u64; 5] { const NAME: &'static str = "(Tok,[u64;5]): 48 bytes"; fn of(id: u32) -> [u64; 5] { let x = id as u64 + 1; [x, x << 8, x << 16, x << 24, !x] } }
#[repr(align(32))] #[derive(Debug, PartialEq, Hash)] struct Al32(u64);
impl Payload for Al32 { const NAME: &'static str = "(Tok,align32): align 32, 64 bytes"; fn of(id: u32) -> Al32 { Al32(0xA5A5_0000_0000 | id as u64) } }
/// a token with a payload derived from its id (a read at a wrong offset or of a wrong width breaks `intact`)
#[derive(Debug, PartialEq, Hash)]
struct Pad<P> { t: Tok, p: P }

trait Elem: Sized + Debug + PartialEq + Hash + Default { const SHAPE: &'static str; const TRACKED: bool; fn make() -> Self; fn eid(&self) -> u32; fn intact(&self) -> bool; }
impl Elem for Tok { const SHAPE: &'static str = "Tok: 8 bytes"; const TRACKED: bool = true; fn make() -> Tok { Tok::new() } fn eid(&self) -> u32 { self.id } fn intact(&self) -> bool { self.val == self.id } }
impl<P: Payload> Default for Pad<P> { fn default() -> Self { Self::make() } }
impl<P: Payload> Elem for Pad<P> { const SHAPE: &'static str = P::NAME; const TRACKED: bool = true; fn make() -> Self { let t = Tok::new(); let p = P::of(t.id); Pad { t, p } } fn eid(&self) -> u32 { self.t.id } fn intact(&self) -> bool { self.p == P::of(self.t.id) && self.t.val == self.t.id } }
impl Default for Zst { fn default() -> Zst { Zst::make() } }
impl Elem for Zst { const SHAPE: &'static str = "zero-sized with Drop"; const TRACKED: bool = false; fn make() -> Zst { ZC.with(|c| { let (a, b) = c.get(); c.set((a + 1, b)); }); Zst } fn eid(&self) -> u32 { u32::MAX } fn intact(&self) -> bool { true } }
fn eids<E: Elem>(v: &[E]) -> Vec<u32> { v.iter().map(|e| e.eid()).collect() }
fn want_ids<E: Elem>(w: Vec<u32>) -> Vec<u32> { if E::TRACKED { w } else { vec![u32::MAX; w.len()] } }

fn cursor_states(n: usize, all: bool) -> Vec<(usize, usize)> {
    let cur: Vec<usize> = if all { (0..=n).collect() } else { let mut v = vec![0, 1, 2, n / 2, n - 2, n - 1, n]; v.sort(); v.dedup(); v };
    cur.iter().flat_map(|&f| cur.iter().map(move |&b| (f, b))).filter(|&(f, b)| f + b <= n).collect()
}

/// The consuming iterator over elements of shape `E`: every cursor state of the stated set, pulls checked by id and payload,
/// length reports, the observation set with the ledger watching, nothing dropped before the iterator is, exactly the live range
/// dropped by the iterator, the yielded elements still intact afterwards, ledger balanced at the end.
fn shape_iter<V, E>(s: &Section)
where E: Elem, V: VecN<E> + IntoIterator<Item = E> + 'static, V::IntoIter: DoubleEndedIterator + ExactSizeIterator + Debug + PartialEq + Hash {
    let n = V::N;
    let site = format!("{}::IntoIter<{}>", V::NAME, E::SHAPE);
    let states = cursor_states(n, n <= 8 || s.thorough());
    'st: for &(f, b) in &states {
        s.eval(f + b > 0);
        let w = (f + b) as u64;
        let r = catch(|| -> Option<()> {
            reset_all();
            let v = V::from_elems((0..n).map(|_| E::make()).collect());
            let mut it = v.into_iter();
            let mut held: Vec<E> = Vec::new();
            for i in 0..f { match it.next() { Some(e) if (!E::TRACKED || e.eid() as usize == i) && e.intact() => { if E::TRACKED { tok::mark_yielded(e.eid()); } held.push(e) } o => { s.violation_w(&site, "wrong-element-from-next", json!({"state": [f, b], "pull": i, "got": o.as_ref().map(|e| e.eid()), "payload_intact": o.as_ref().map(|e| e.intact())}), w); return None; } } }
            for i in 0..b { match it.next_back() { Some(e) if (!E::TRACKED || e.eid() as usize == n - 1 - i) && e.intact() => { if E::TRACKED { tok::mark_yielded(e.eid()); } held.push(e) } o => { s.violation_w(&site, "wrong-element-from-next_back", json!({"state": [f, b], "pull": i, "got": o.as_ref().map(|e| e.eid()), "payload_intact": o.as_ref().map(|e| e.intact())}), w); return None; } } }
            let rem = n - f - b;
            if it.len() != rem || it.size_hint() != (rem, Some(rem)) { s.violation_w(&site, "wrong-length-report", json!({"state": [f, b], "len": it.len(), "size_hint": format!("{:?}", it.size_hint())}), w); }
            tok::set_watch(true);
            let _ = format!("{:?}", it); let _ = format!("{:#?}", it);
            let mut h = DefaultHasher::new(); it.hash(&mut h); let _ = h.finish();
            #[allow(clippy::eq_op)] let _ = (it == it, it != it);
            tok::set_watch(false);
            if let Some(fl) = tok::faults().into_iter().next() { s.violation_w(&site, "safe-observation-reads-moved-out-element", json!({"state": [f, b], "what": fl}), w); return None; }
            if dropped_total() != 0 { s.violation_w(&site, "element-dropped-before-the-iterator-is", json!({"state": [f, b], "dropped": dropped_total()}), w); }
            drop(it);
            let d = dropped_total();
            if d != rem { s.violation_w(&site, if d < rem { "drop-leaks-unyielded-element" } else { "drop-drops-yielded-element" }, json!({"state": [f, b], "dropped_by_the_iterator": d, "live_range": rem}), w); }
            if E::TRACKED { let st = tok::states(); for id in 0..n { let live = id >= f && id < n - b; if live != (st[id] == St::Dropped) { s.violation_w(&site, if live { "drop-leaks-unyielded-element" } else { "drop-drops-yielded-element" }, json!({"state": [f, b], "element": id}), w); } } }
            if let Some(bad) = held.iter().find(|e| !e.intact()) { s.violation_w(&site, "yielded-element-corrupted", json!({"state": [f, b], "element": bad.eid()}), w); }
            drop(held);
            if let Err((c, dd)) = balanced_all() { s.violation_w(&site, c, json!({"state": [f, b], "what": dd}), w); }
            Some(())
        });
        if let Err(c) = r { s.violation_w(&site, "panic", json!({"state": [f, b], "what": format!("{:?}", c)}), w); continue 'st; }
    }
    s.class(E::SHAPE);
}

macro_rules! shape_conv { ($s:expr, $V:ident, $n:expr, $E:ty) => {{
    #[inline(never)] fn go(s: &Section) { const N: usize = $n; type E = $E; let name = <$V<E> as VecN<E>>::NAME; let shape = <E as Elem>::SHAPE;
    let seq = || want_ids::<E>((0..N as u32).collect());
    { let site = format!("From<[T;{}]> for {}<{}>", N, name, shape); s.eval(true); reset_all();
      let a: [E; N] = std::array::from_fn(|_| <E as Elem>::make());
      let v = $V::from(a); if dropped_total() != 0 { s.violation(&site, "element-dropped-during-conversion", json!({"dropped": dropped_total()})); }
      let e = v.into_elems(); if eids(&e) != seq() || e.iter().any(|x| !x.intact()) { s.violation(&site, "wrong-order", json!({"got": eids(&e)})); }
      drop(e); if let Err((c, d)) = balanced_all() { s.violation(&site, c, json!({"what": d})); } }
    { let site = format!("{}<{}>::into_array", name, shape); s.eval(true); reset_all();
      let v = <$V<E> as VecN<E>>::from_elems((0..N).map(|_| <E as Elem>::make()).collect()); let a = v.into_array(); if dropped_total() != 0 { s.violation(&site, "element-dropped-during-conversion", json!({"dropped": dropped_total()})); }
      if eids(&a) != seq() || a.iter().any(|x| !x.intact()) { s.violation(&site, "wrong-order", json!({"got": eids(&a)})); }
      drop(a); if let Err((c, d)) = balanced_all() { s.violation(&site, c, json!({"what": d})); } }
    for len in [0, 1, N - 1, N, N + 2] { let site = format!("FromIterator for {}<{}>", name, shape); s.eval(len != N); reset_all();
      let src: Vec<E> = (0..len).map(|_| <E as Elem>::make()).collect();
      let v: $V<E> = src.into_iter().collect();
      let e = v.into_elems(); let got = eids(&e);
      if e.len() != N || e.iter().any(|x| !x.intact()) { s.violation(&site, "wrong-order", json!({"iterator_length": len, "got": got})); }
      if <E as Elem>::TRACKED { for i in 0..N { if i < len.min(N) { if got[i] != i as u32 { s.violation(&site, "wrong-order", json!({"iterator_length": len, "got": got})); break; } } else if (got[i] as usize) < len { s.violation(&site, "tail-not-default", json!({"iterator_length": len, "got": got})); break; } } }
      drop(e); if let Err((c, d)) = balanced_all() { s.violation(&site, c, json!({"iterator_length": len, "what": d})); } }
    { let site = format!("{}<{}>: slice views", name, shape); s.eval(true); reset_all();
      let mut v = <$V<E> as VecN<E>>::from_elems((0..N).map(|_| <E as Elem>::make()).collect());
      let want: Vec<*const E> = addrs::<E, _>(&v);
      let g1: Vec<*const E> = v.as_slice().iter().map(|e| e as *const E).collect();
      let g2: Vec<*const E> = v.as_mut_slice().iter_mut().map(|e| e as *mut E as *const E).collect();
      if g1 != want || g2 != want { s.violation(&site, "view-entry-is-not-the-field-in-declaration-order", json!({"as_slice_entries": g1.len(), "as_mut_slice_entries": g2.len(), "want_entries": N})); }
      if eids(v.as_slice()) != seq() || v.as_slice().iter().any(|x| !x.intact()) { s.violation(&site, "wrong-order", json!({"got": eids(v.as_slice())})); }
      if dropped_total() != 0 { s.violation(&site, "element-dropped-during-conversion", json!({"dropped": dropped_total()})); }
      drop(v); if let Err((c, d)) = balanced_all() { s.violation(&site, c, json!({"what": d})); } }
    } let s_: &Section = $s; guarded(s_, format!("shape_conv! {} {}", stringify!($V), stringify!($E)), || go(s_));
}} }

macro_rules! shape_mat { ($s:expr, $M:ident, $n:expr, $lay:ident, $layname:expr, $lines:ident, $V:ident, $E:ty) => {{
    #[inline(never)] fn go(s: &Section) { const N: usize = $n; const NN: usize = N * N; type E = $E; let shape = <E as Elem>::SHAPE;
    let name = format!("Mat{}<{}><{}>", N, $layname, shape);
    // element (i,j) carries id i*N+j
    let build = || -> $lay::$M<E> {
        reset_all();
        let mut t: Vec<Option<E>> = (0..NN).map(|_| Some(<E as Elem>::make())).collect();
        let line = |t: &mut Vec<Option<E>>, k: usize| -> $V<E> { <$V<E> as VecN<E>>::from_elems((0..N).map(|l| { let (i, j) = if $layname == "row" { (k, l) } else { (l, k) }; t[i * N + j].take().unwrap() }).collect()) };
        let lines: Vec<$V<E>> = (0..N).map(|k| line(&mut t, k)).collect();
        $lay::$M { $lines: <$V<$V<E>> as VecN<$V<E>>>::from_elems(lines) }
    };
    let decode = |m: $lay::$M<E>| -> (Vec<Vec<u32>>, bool) { // [i][j], all payloads intact
        let lines: Vec<Vec<E>> = m.$lines.into_elems().into_iter().map(|l| l.into_elems()).collect();
        let mut out = vec![vec![0u32; N]; N]; let mut ok = true;
        for (k, l) in lines.iter().enumerate() { for (x, t) in l.iter().enumerate() { let (i, j) = if $layname == "row" { (k, x) } else { (x, k) }; out[i][j] = t.eid(); ok &= t.intact(); } }
        (out, ok)
    };
    let tr = <E as Elem>::TRACKED;
    let want_rows: Vec<u32> = want_ids::<E>((0..NN as u32).collect());
    let want_cols: Vec<u32> = want_ids::<E>((0..N).flat_map(|j| (0..N).map(move |i| (i * N + j) as u32)).collect());
    let want_ij: Vec<Vec<u32>> = (0..N).map(|i| (0..N).map(|j| if tr { (i * N + j) as u32 } else { u32::MAX }).collect()).collect();
    let want_t: Vec<Vec<u32>> = (0..N).map(|i| (0..N).map(|j| if tr { (j * N + i) as u32 } else { u32::MAX }).collect()).collect();
    let during = |site: &str| { if dropped_total() != 0 { s.violation(site, "element-dropped-during-conversion", json!({"dropped": dropped_total()})); } };
    let after = |site: &str| { if let Err((c, d)) = balanced_all() { s.violation(site, c, json!({"what": d})); } };
    { let site = format!("{}::into_row_array", name); s.eval(true); let a = build().into_row_array(); during(&site); if eids(&a) != want_rows || a.iter().any(|x| !x.intact()) { s.violation(&site, "wrong-order", json!({"got": eids(&a)})); } drop(a); after(&site); }
    { let site = format!("{}::into_col_array", name); s.eval(true); let a = build().into_col_array(); during(&site); if eids(&a) != want_cols || a.iter().any(|x| !x.intact()) { s.violation(&site, "wrong-order", json!({"got": eids(&a)})); } drop(a); after(&site); }
    { let site = format!("{}::into_row_arrays", name); s.eval(true); let a = build().into_row_arrays(); during(&site); let g: Vec<u32> = a.iter().flat_map(|r| r.iter().map(|t| t.eid())).collect(); if g != want_rows || a.iter().flatten().any(|x| !x.intact()) { s.violation(&site, "wrong-order", json!({"got": g})); } drop(a); after(&site); }
    { let site = format!("{}::into_col_arrays", name); s.eval(true); let a = build().into_col_arrays(); during(&site); let g: Vec<u32> = a.iter().flat_map(|r| r.iter().map(|t| t.eid())).collect(); if g != want_cols || a.iter().flatten().any(|x| !x.intact()) { s.violation(&site, "wrong-order", json!({"got": g})); } drop(a); after(&site); }
    { let site = format!("{}::from_row_array", name); s.eval(true); reset_all(); let a: [E; NN] = std::array::from_fn(|_| <E as Elem>::make()); let m = $lay::$M::from_row_array(a); during(&site); let (g, ok) = decode(m); if g != want_ij || !ok { s.violation(&site, "wrong-order", json!({"got": g, "payloads_intact": ok})); } after(&site); }
    { let site = format!("{}::from_col_array", name); s.eval(true); reset_all(); let a: [E; NN] = std::array::from_fn(|_| <E as Elem>::make()); let m = $lay::$M::from_col_array(a); during(&site); let (g, ok) = decode(m); if g != want_t || !ok { s.violation(&site, "wrong-order", json!({"got": g, "payloads_intact": ok})); } after(&site); }
    { let site = format!("{}::from_row_arrays", name); s.eval(true); reset_all(); let a: [[E; N]; N] = std::array::from_fn(|_| std::array::from_fn(|_| <E as Elem>::make())); let m = $lay::$M::from_row_arrays(a); during(&site); let (g, ok) = decode(m); if g != want_ij || !ok { s.violation(&site, "wrong-order", json!({"got": g, "payloads_intact": ok})); } after(&site); }
    { let site = format!("{}::from_col_arrays", name); s.eval(true); reset_all(); let a: [[E; N]; N] = std::array::from_fn(|_| std::array::from_fn(|_| <E as Elem>::make())); let m = $lay::$M::from_col_arrays(a); during(&site); let (g, ok) = decode(m); if g != want_t || !ok { s.violation(&site, "wrong-order", json!({"got": g, "payloads_intact": ok})); } after(&site); }
    s.class(&format!("Mat{}<{}>", N, $layname));
    } let s_: &Section = $s; guarded(s_, format!("shape_mat! {} {} {} {}", stringify!($V), stringify!($M), stringify!($lay), stringify!($E)), || go(s_));
}} }

// ---- field addresses: the oracle for "slice views alias the value's own storage" ---------------------
/// References to the public fields in declaration order (struct-literal / field access only).
trait Fields<T> { fn refs(&self) -> Vec<&T>; }
macro_rules! fields { ($V:ident: $($f:tt)+) => { impl<T> Fields<T> for $V<T> { fn refs(&self) -> Vec<&T> { vec![$(&self.$f),+] } } } }
fields!(Vec2: x y); fields!(Vec3: x y z); fields!(Vec4: x y z w); fields!(Extent2: w h); fields!(Extent3: w h d);
fields!(Rgb: r g b); fields!(Rgba: r g b a); fields!(Uv: u v); fields!(Uvw: u v w);
fields!(Vec8: 0 1 2 3 4 5 6 7);
fields!(Vec16: 0 1 2 3 4 5 6 7 8 9 10 11 12 13 14 15);
fields!(Vec32: 0 1 2 3 4 5 6 7 8 9 10 11 12 13 14 15 16 17 18 19 20 21 22 23 24 25 26 27 28 29 30 31);
fields!(Vec64: 0 1 2 3 4 5 6 7 8 9 10 11 12 13 14 15 16 17 18 19 20 21 22 23 24 25 26 27 28 29 30 31 32 33 34 35 36 37 38 39 40 41 42 43 44 45 46 47 48 49 50 51 52 53 54 55 56 57 58 59 60 61 62 63);
fn addrs<T, F: Fields<T>>(v: &F) -> Vec<*const T> { v.refs().into_iter().map(|r| r as *const T).collect() }

/// All twelve view forms of a vector, entry by entry against the addresses of the public fields; for Copy elements also a write
/// through every mutable view on every lane (lane-distinct values), read back through the fields.
macro_rules! views { ($s:expr, $V:ident, $n:expr, $T:ty, $elname:expr, $mk:expr, $write:expr) => {{
    #[inline(never)] fn go(s: &Section) { const N: usize = $n; type T = $T; let name = <$V<T> as VecN<T>>::NAME;
    let site = format!("{}<{}>: slice views", name, $elname);
    let mk = $mk;
    tok::reset();
    let mut v = <$V<T> as VecN<T>>::from_elems((0..N as u32).map(|i| mk(i)).collect());
    let want: Vec<*const T> = addrs::<T, _>(&v);
    let all_alias = std::cell::Cell::new(true);
    let chk = |view: &str, got: Vec<*const T>| { s.eval(true); if got != want { all_alias.set(false); let at = got.iter().zip(want.iter()).position(|(a, b)| a != b); s.violation_w(&site, "view-entry-is-not-the-field-in-declaration-order", json!({"view": view, "entries": got.len(), "want_entries": N, "first_mismatching_entry": at}), N as u64); } };
    chk("as_slice", v.as_slice().iter().map(|e| e as *const T).collect());
    chk("Deref", (&*v).iter().map(|e| e as *const T).collect());
    chk("AsRef<[T]>", <$V<T> as AsRef<[T]>>::as_ref(&v).iter().map(|e| e as *const T).collect());
    chk("Borrow<[T]>", <$V<T> as Borrow<[T]>>::borrow(&v).iter().map(|e| e as *const T).collect());
    chk("IntoIterator for &V", (&v).into_iter().map(|e| e as *const T).collect());
    chk("iter()", v.iter().map(|e| e as *const T).collect());
    chk("as_mut_slice", v.as_mut_slice().iter_mut().map(|e| e as *mut T as *const T).collect());
    chk("DerefMut", (&mut *v).iter_mut().map(|e| e as *mut T as *const T).collect());
    chk("AsMut<[T]>", <$V<T> as AsMut<[T]>>::as_mut(&mut v).iter_mut().map(|e| e as *mut T as *const T).collect());
    chk("BorrowMut<[T]>", <$V<T> as BorrowMut<[T]>>::borrow_mut(&mut v).iter_mut().map(|e| e as *mut T as *const T).collect());
    chk("IntoIterator for &mut V", (&mut v).into_iter().map(|e| e as *mut T as *const T).collect());
    chk("iter_mut()", v.iter_mut().map(|e| e as *mut T as *const T).collect());
    s.eval(true);
    if (&v).into_iter().len() != N || (&mut v).into_iter().len() != N { s.violation(&site, "view-entry-is-not-the-field-in-declaration-order", json!({"view": "ExactSizeIterator::len of the borrowing iterators"})); }
    if <$V<T> as AsRef<$V<T>>>::as_ref(&v) as *const $V<T> != &v as *const $V<T> || <$V<T> as AsMut<$V<T>>>::as_mut(&mut v) as *mut $V<T> as *const $V<T> != &v as *const $V<T> { s.violation(&site, "view-entry-is-not-the-field-in-declaration-order", json!({"view": "AsRef<Self>/AsMut<Self>"})); }
    // writing through a view that is NOT the value's storage would be the defect's undefined behaviour, not ours: only when all alias
    if all_alias.get() { ($write)(s, &site, &mut v); }
    drop(v);
    if let Some(f) = tok::faults().into_iter().next() { s.violation(&site, "ledger-fault", json!({"what": f})); }
    if tok::states().iter().any(|x| *x != St::Dropped) { s.violation(&site, "element-leaked", json!({})); }
    } let s_: &Section = $s; guarded(s_, format!("views! {} {}", stringify!($V), stringify!($T)), || go(s_));
}} }
/// write pass for Copy elements: through each of the six mutable views, every lane, lane-distinct values; fields read back by value
macro_rules! write_pass { ($V:ident, $n:expr, $T:ty, $mk:expr) => { |s: &Section, site: &str, v: &mut $V<$T>| {
    const N: usize = $n; let mk = $mk;
    // values seen through the shared views are the field values, in order
    let init: Vec<$T> = (0..N as u32).map(|i| mk(i)).collect();
    if v.as_slice() != &init[..] || !(&*v).into_iter().eq(init.iter()) || !v.iter().eq(init.iter()) { s.violation(site, "wrong-order", json!({"view": "as_slice / &V / iter()"})); }
    for k in 0..6u32 {
        let val = |i: usize| mk((k * 37 + i as u32 * 3 + 1) % 256);
        match k {
            0 => for i in 0..N { v.as_mut_slice()[i] = val(i); },
            1 => for i in 0..N { (&mut **v)[i] = val(i); },
            2 => for i in 0..N { <$V<$T> as AsMut<[$T]>>::as_mut(v)[i] = val(i); },
            3 => for i in 0..N { <$V<$T> as BorrowMut<[$T]>>::borrow_mut(v)[i] = val(i); },
            4 => for (i, e) in (&mut *v).into_iter().enumerate() { *e = val(i); },
            _ => for (i, e) in v.iter_mut().enumerate() { *e = val(i); },
        }
        s.eval(true);
        let got = <$V<$T> as VecN<$T>>::into_elems(*v);
        let want: Vec<$T> = (0..N).map(val).collect();
        if got != want { s.violation_w(site, "write-through-view-not-visible-in-fields", json!({"mutable_view": k, "first_wrong_lane": got.iter().zip(want.iter()).position(|(a, b)| a != b)}), N as u64); }
        // and back: what the fields hold is what every shared view shows
        if v.as_slice() != &want[..] { s.violation_w(site, "wrong-order", json!({"view": "as_slice after a write pass", "mutable_view": k}), N as u64); }
    }
} } }
fn no_write<V>(_: &Section, _: &str, _: &mut V) {}

macro_rules! views_all { ($s:expr, $V:ident, $n:expr) => {{
    views!($s, $V, $n, u8, "u8", |x: u32| x as u8, write_pass!($V, $n, u8, |x: u32| x as u8));
    views!($s, $V, $n, u32, "u32", |x: u32| 100 + x, write_pass!($V, $n, u32, |x: u32| 100 + x));
    views!($s, $V, $n, u64, "u64", |x: u32| ((x as u64) << 33) | x as u64, write_pass!($V, $n, u64, |x: u32| ((x as u64) << 33) | x as u64));
    views!($s, $V, $n, u128, "u128", |x: u32| ((x as u128 + 1) << 100) | x as u128, write_pass!($V, $n, u128, |x: u32| ((x as u128 + 1) << 100) | x as u128));
    views!($s, $V, $n, [u8; 3], "[u8;3]", |x: u32| [x as u8, !(x as u8), 7], write_pass!($V, $n, [u8; 3], |x: u32| [x as u8, !(x as u8), 7]));
    views!($s, $V, $n, (), "()", |_x: u32| (), no_write::<$V<()>>);
    views!($s, $V, $n, Tok, "Tok", |_x: u32| Tok::new(), |s: &Section, site: &str, v: &mut $V<Tok>| { if ids(v.as_slice()) != (0..$n as u32).collect::<Vec<_>>() || !tok::dropped_ids().is_empty() { s.violation(site, "wrong-order", json!({"got": ids(v.as_slice())})); } });
    $s.class(<$V<Tok> as VecN<Tok>>::NAME);
}} }

/// `from_slice` (Copy + Default elements): every slice length 0..N+2, lane-distinct non-default values.
macro_rules! from_slice { ($s:expr, $V:ident, $n:expr) => {{
    #[inline(never)] fn go(s: &Section) { const N: usize = $n; let name = <$V<u32> as VecN<u32>>::NAME;
    let site = format!("{}::from_slice", name);
    for len in 0..=N + 2 {
        s.eval(len != N);
        let src: Vec<u32> = (0..len as u32).map(|i| 7 + 3 * i).collect();
        let got = <$V<u32> as VecN<u32>>::into_elems($V::<u32>::from_slice(&src));
        let want: Vec<u32> = (0..N).map(|i| if i < len { 7 + 3 * i as u32 } else { 0 }).collect();
        if got != want { s.violation_w(&site, if got[..len.min(N)] != want[..len.min(N)] { "wrong-order" } else { "tail-not-default" }, json!({"slice": src, "got": got, "want": want}), len as u64); }
        let src3: Vec<[u8; 3]> = (0..len as u8).map(|i| [i + 1, 200 - i, 9]).collect();
        let got3 = <$V<[u8; 3]> as VecN<[u8; 3]>>::into_elems($V::<[u8; 3]>::from_slice(&src3));
        let want3: Vec<[u8; 3]> = (0..N).map(|i| if i < len { [i as u8 + 1, 200 - i as u8, 9] } else { [0; 3] }).collect();
        if got3 != want3 { s.violation_w(&site, "wrong-order", json!({"element": "[u8;3]", "slice_length": len, "got": got3}), len as u64); }
    }
    s.class("from_slice");
    } let s_: &Section = $s; guarded(s_, format!("from_slice! {}", stringify!($V)), || go(s_));
}} }

/// `From<(SmallerVec<T>, T)>`: the tuple's vector lanes first, then the scalar; each moved once.
macro_rules! conv_smaller { ($s:expr, $V:ident, $Small:ident, $n:expr) => {{
    #[inline(never)] fn go(s: &Section) { const N: usize = $n; let name = <$V<Tok> as VecN<Tok>>::NAME;
    let site = format!("From<({}, T)> for {}", <$Small<Tok> as VecN<Tok>>::NAME, name); s.eval(true);
    let mut all = fresh(N); let last = all.pop().unwrap();
    let small = <$Small<Tok> as VecN<Tok>>::from_elems(all);
    let v = $V::from((small, last)); no_drops_yet(s, &site);
    let e = v.into_elems(); if ids(&e) != (0..N as u32).collect::<Vec<_>>() { s.violation(&site, "wrong-order", json!({"got": ids(&e)})); }
    drop(e); all_dropped_once(s, &site, N);
    s.class("From<(smaller vector, scalar)>");
    } let s_: &Section = $s; guarded(s_, format!("conv_smaller! {}", stringify!($V)), || go(s_));
}} }

/// map2 / map3: lane-wise pairing, every element of every operand moved exactly once.
macro_rules! conv_mapn { ($s:expr, $V:ident, $n:expr) => {{
    #[inline(never)] fn go(s: &Section) { const N: usize = $n; let name = <$V<Tok> as VecN<Tok>>::NAME;
    { let site = format!("{}::map2", name); s.eval(true);
      let mut all = fresh(2 * N); let second = all.split_off(N);
      let (a, b) = (<$V<Tok> as VecN<Tok>>::from_elems(all), <$V<Tok> as VecN<Tok>>::from_elems(second));
      let z = a.map2(b, |x, y| [x, y]); no_drops_yet(s, &site);
      let e = z.into_elems(); for (i, p) in e.iter().enumerate() { if p[0].id != i as u32 || p[1].id != (N + i) as u32 { s.violation(&site, "wrong-pairing", json!({"lane": i, "got": [p[0].id, p[1].id]})); break; } }
      drop(e); all_dropped_once(s, &site, 2 * N); }
    { let site = format!("{}::map3", name); s.eval(true);
      let mut all = fresh(3 * N); let third = all.split_off(2 * N); let second = all.split_off(N);
      let (a, b, c) = (<$V<Tok> as VecN<Tok>>::from_elems(all), <$V<Tok> as VecN<Tok>>::from_elems(second), <$V<Tok> as VecN<Tok>>::from_elems(third));
      let z = a.map3(b, c, |x, y, w| [x, y, w]); no_drops_yet(s, &site);
      let e = z.into_elems(); for (i, p) in e.iter().enumerate() { if p[0].id != i as u32 || p[1].id != (N + i) as u32 || p[2].id != (2 * N + i) as u32 { s.violation(&site, "wrong-pairing", json!({"lane": i, "got": [p[0].id, p[1].id, p[2].id]})); break; } }
      drop(e); all_dropped_once(s, &site, 3 * N); }
    s.class("map2/map3");
    } let s_: &Section = $s; guarded(s_, format!("conv_mapn! {}", stringify!($V)), || go(s_));
}} }

/// A consuming iterator in every cursor state collected back into the same vector type: the live range lands in the first lanes
/// in order, the rest are fresh defaults, nothing is duplicated or lost (a call SEQUENCE through both unsafe halves).
fn collect_back<V>(s: &Section)
where V: VecN<Tok> + IntoIterator<Item = Tok> + FromIterator<Tok> + 'static, V::IntoIter: DoubleEndedIterator + ExactSizeIterator {
    let n = V::N;
    let site = format!("{}::into_iter() .. collect::<{}>()", V::NAME, V::NAME);
    for (f, b) in cursor_states(n, n <= 8 || s.thorough()) {
        for rev in [false, true] {
            s.eval(f + b > 0);
            let r = catch(|| {
                tok::reset();
                let v = V::from_elems((0..n).map(|_| Tok::new()).collect());
                let mut it = v.into_iter();
                let mut held = Vec::new();
                for _ in 0..f { held.extend(it.next()); }
                for _ in 0..b { held.extend(it.next_back()); }
                let back: V = if rev { it.rev().collect() } else { it.collect() };
                // the only drops so far are the defaults that were overwritten (ids >= n)
                let early: Vec<u32> = tok::dropped_ids().into_iter().filter(|&id| (id as usize) < n).collect();
                if !early.is_empty() { s.violation_w(&site, "element-dropped-during-conversion", json!({"state": [f, b], "reversed": rev, "dropped": early}), (f + b) as u64); }
                if let Some(fl) = tok::faults().into_iter().next() { s.violation_w(&site, "ledger-fault", json!({"state": [f, b], "what": fl}), (f + b) as u64); }
                let e = back.into_elems();
                let mut want: Vec<u32> = (f as u32..(n - b) as u32).collect(); if rev { want.reverse(); }
                let got = ids(&e);
                if got[..want.len()] != want[..] { s.violation_w(&site, "wrong-order", json!({"state": [f, b], "reversed": rev, "got": got, "want_prefix": want}), (f + b) as u64); }
                if got[want.len()..].iter().any(|&id| (id as usize) < n) { s.violation_w(&site, "tail-not-default", json!({"state": [f, b], "reversed": rev, "got": got}), (f + b) as u64); }
                let mut hid = ids(&held); hid.sort(); let mut wh: Vec<u32> = (0..f as u32).chain((n - b) as u32..n as u32).collect(); wh.sort();
                if hid != wh { s.violation_w(&site, "wrong-element-from-next", json!({"state": [f, b], "held": hid}), (f + b) as u64); }
                drop(e); drop(held);
                if let Some(fl) = tok::faults().into_iter().next() { s.violation_w(&site, "ledger-fault", json!({"state": [f, b], "what": fl}), (f + b) as u64); }
                if tok::states().iter().any(|x| *x != St::Dropped) { s.violation_w(&site, "element-leaked", json!({"state": [f, b], "reversed": rev}), (f + b) as u64); }
            });
            if let Err(c) = r { s.violation_w(&site, "panic", json!({"state": [f, b], "what": format!("{:?}", c)}), (f + b) as u64); }
        }
    }
    s.class("into_iter..collect");
}

/// FromIterator fed by iterators that lie about their length, and by one that panics after k elements.
struct Lying<I> { inner: I, hint: (usize, Option<usize>) }
impl<I: Iterator> Iterator for Lying<I> { type Item = I::Item; fn next(&mut self) -> Option<I::Item> { self.inner.next() } fn size_hint(&self) -> (usize, Option<usize>) { self.hint } }
struct PanicAfter { left: usize }
impl Iterator for PanicAfter { type Item = Tok; fn next(&mut self) -> Option<Tok> { if self.left == 0 { panic!("source iterator failed") } self.left -= 1; Some(Tok::new()) } }
fn hostile_sources<V>(s: &Section)
where V: VecN<Tok> + FromIterator<Tok> + 'static {
    let n = V::N;
    let site = format!("FromIterator for {}", V::NAME);
    let lens: Vec<usize> = if n <= 8 || s.thorough() { (0..=n + 2).collect() } else { vec![0, 1, n / 2, n - 1, n, n + 1, n + 2] };
    for &len in &lens {
        // (second audit) besides the four far-off lies: every hint in the neighbourhood of the true length and of the vector's own
        // size N, as an exact hint (x, Some(x)), as a lower bound only (x, None) and as an upper bound only (0, Some(x)); this contains
        // the honest exact hint, honest inexact ones (what filter / flat_map / from_fn report) and the lie "exactly N elements"
        let mut hints: Vec<(usize, Option<usize>)> = vec![(0, Some(0)), (0, None), (1000, Some(1000)), (usize::MAX, None)];
        for x in [1, len.saturating_sub(1), len, len + 1, n - 1, n, n + 1, 2 * n] { for h in [(x, Some(x)), (x, None), (0, Some(x)), (x, Some(usize::MAX))] { if !hints.contains(&h) { hints.push(h); } } }
        for hint in hints {
            s.eval(true);
            let r = catch(|| {
                tok::reset();
                let src: Vec<Tok> = (0..len).map(|_| Tok::new()).collect();
                let v: V = Lying { inner: src.into_iter(), hint }.collect();
                let e = v.into_elems(); let got = ids(&e);
                for i in 0..n { if i < len.min(n) { if got[i] != i as u32 { s.violation_w(&site, "wrong-order", json!({"iterator_length": len, "size_hint": format!("{:?}", hint), "got": got}), len as u64); break; } } else if (got[i] as usize) < len { s.violation_w(&site, "tail-not-default", json!({"iterator_length": len, "size_hint": format!("{:?}", hint), "got": got}), len as u64); break; } }
                drop(e);
                if let Some(f) = tok::faults().into_iter().next() { s.violation_w(&site, "ledger-fault", json!({"iterator_length": len, "size_hint": format!("{:?}", hint), "what": f}), len as u64); }
                if tok::states().iter().any(|x| *x != St::Dropped) { s.violation_w(&site, "element-leaked", json!({"iterator_length": len, "size_hint": format!("{:?}", hint)}), len as u64); }
            });
            if let Err(c) = r { s.violation_w(&site, "panic", json!({"iterator_length": len, "size_hint": format!("{:?}", hint), "what": format!("{:?}", c)}), len as u64); }
        }
    }
    // a source that panics after k elements (k < N, so the panic is reached): no element may be dropped twice or touched after its
    // drop while the half-built vector unwinds. (Whether the elements already received leak on a panic is left open by the property.)
    let mut leaked = 0usize;
    for k in 0..n.min(if s.thorough() { 64 } else { 9 }) {
        s.eval(true);
        tok::reset();
        let r = catch(|| { let v: V = PanicAfter { left: k }.collect(); v });
        if r.is_ok() { s.rep.machinery_error(format!("{}: the panicking source (k = {}) was never pulled to its panic", V::NAME, k)); }
        drop(r);
        if let Some(f) = tok::faults().into_iter().next() { s.violation_w(&site, "ledger-fault", json!({"source": "panics after k elements", "k": k, "what": f}), k as u64); }
        leaked += tok::states().iter().filter(|x| **x != St::Dropped).count();
    }
    s.meta(&format!("{}: elements not dropped after a panicking source (not asserted)", V::NAME), json!(leaked));
    s.class("hostile sources");
}

/// Sum / Product over an iterator of vectors with a NON-Copy numeric element: lane-wise result, every operand and every
/// intermediate dropped exactly once.
struct Cnt { v: i64, t: Tok }
impl std::ops::Add for Cnt { type Output = Cnt; fn add(self, o: Cnt) -> Cnt { Cnt { v: self.v + o.v, t: Tok::new() } } }
impl std::ops::Mul for Cnt { type Output = Cnt; fn mul(self, o: Cnt) -> Cnt { Cnt { v: self.v * o.v, t: Tok::new() } } }
impl num_traits::Zero for Cnt { fn zero() -> Cnt { Cnt { v: 0, t: Tok::new() } } fn is_zero(&self) -> bool { self.v == 0 } }
impl num_traits::One for Cnt { fn one() -> Cnt { Cnt { v: 1, t: Tok::new() } } }
fn sums<V>(s: &Section)
where V: VecN<Cnt> + std::iter::Sum + std::iter::Product + 'static {
    let n = V::N;
    for count in 0..=3usize {
        for product in [false, true] {
            let site = format!("{} for {}", if product { "Product" } else { "Sum" }, V::NAME);
            s.eval(count > 0);
            let r = catch(|| {
                tok::reset();
                let val = |j: usize, i: usize| (j as i64 + 2) * 10 + i as i64 % 7 - 3;
                let vs: Vec<V> = (0..count).map(|j| V::from_elems((0..n).map(|i| Cnt { v: val(j, i), t: Tok::new() }).collect())).collect();
                let operand_ids = tok::count();
                let r: V = if product { vs.into_iter().product() } else { vs.into_iter().sum() };
                let e = r.into_elems();
                for (i, c) in e.iter().enumerate() {
                    let want: i64 = if product { (0..count).map(|j| val(j, i)).product() } else { (0..count).map(|j| val(j, i)).sum() };
                    if c.v != want { s.violation_w(&site, "wrong-value", json!({"vectors": count, "lane": i, "got": c.v, "want": want}), count as u64); break; }
                    if tok::state(c.t.id) != St::Live { s.violation_w(&site, "ledger-fault", json!({"vectors": count, "lane": i, "what": "result element already dropped"}), count as u64); break; }
                }
                let st = tok::states();
                if let Some(id) = (0..operand_ids).find(|&id| st[id] != St::Dropped) { if count > 0 { s.violation_w(&site, "element-leaked", json!({"vectors": count, "operand element": id}), count as u64); } }
                drop(e);
                if let Some(f) = tok::faults().into_iter().next() { s.violation_w(&site, "ledger-fault", json!({"vectors": count, "what": f}), count as u64); }
                if tok::states().iter().any(|x| *x != St::Dropped) { s.violation_w(&site, "element-leaked", json!({"vectors": count}), count as u64); }
            });
            if let Err(c) = r { s.violation_w(&site, "panic", json!({"vectors": count, "what": format!("{:?}", c)}), count as u64); }
        }
    }
    s.class("Sum/Product");
}

/// one element type of `mat_views!`; storage order: line k, lane l  ->  entry k*N + l
macro_rules! mat_view_one { ($s:expr, $site:expr, $M:ident, $n:expr, $lay:ident, $lines:ident, $V:ident, $as_slice:ident, $as_mut_slice:ident, $as_ptr:ident, $as_mut_ptr:ident, $T:ty, $elname:expr, $mk:expr) => {{
        #[inline(never)] fn go(s: &Section, site: &str) { const N: usize = $n; const NN: usize = N * N;
        let mk = $mk;
        let mut m = $lay::$M::<$T> { $lines: <$V<$V<$T>> as VecN<$V<$T>>>::from_elems((0..N).map(|k| <$V<$T> as VecN<$T>>::from_elems((0..N).map(|l| mk((k * N + l) as u32)).collect())).collect()) };
        let want: Vec<*const $T> = m.$lines.refs().into_iter().flat_map(|line| line.refs()).map(|r| r as *const $T).collect();
        s.eval(true);
        let g1: Vec<*const $T> = m.$as_slice().iter().map(|e| e as *const $T).collect();
        let g2: Vec<*const $T> = m.$as_mut_slice().iter_mut().map(|e| e as *mut $T as *const $T).collect();
        let (p1, p2) = (m.$as_ptr(), m.$as_mut_ptr() as *const $T);
        if g1 != want || g2 != want || p1 != want[0] || p2 != want[0] { s.violation_w(site, "view-entry-is-not-the-field-in-declaration-order", json!({"element": $elname, "entries": [g1.len(), g2.len()], "want_entries": NN, "ptr_is_first_field": [p1 == want[0], p2 == want[0]]}), NN as u64); }
        let vals: Vec<$T> = (0..NN as u32).map(|i| mk(i)).collect();
        if m.$as_slice() != &vals[..] { s.violation_w(site, "wrong-order", json!({"element": $elname}), NN as u64); }
        // write every entry through the mutable view (only if it is the matrix's own storage), read the fields
        s.eval(true);
        if g2 != want { return; }
        for i in 0..NN { m.$as_mut_slice()[i] = mk((i as u32 * 5 + 11) % 256); }
        let got: Vec<$T> = m.$lines.into_elems().into_iter().flat_map(|l| l.into_elems()).collect();
        let wantv: Vec<$T> = (0..NN).map(|i| mk((i as u32 * 5 + 11) % 256)).collect();
        if got != wantv { s.violation_w(site, "write-through-view-not-visible-in-fields", json!({"element": $elname, "first_wrong_entry": got.iter().zip(wantv.iter()).position(|(a, b)| a != b)}), NN as u64); }
    } let s_: &Section = $s; let site_: &str = $site; guarded(s_, format!("{} <{}>", site_, stringify!($T)), || go(s_, site_));
}} }
/// Matrix slice / pointer views (`as_row_slice` family on row-major, `as_col_slice` family on column-major matrices) against the
/// addresses of the public fields, write-through on every lane, and with ownership tokens.
macro_rules! mat_views { ($s:expr, $M:ident, $n:expr, $lay:ident, $layname:expr, $lines:ident, $V:ident, $as_slice:ident, $as_mut_slice:ident, $as_ptr:ident, $as_mut_ptr:ident, $map_lines:ident) => {{
    #[inline(never)] fn go(s: &Section) { const N: usize = $n; const NN: usize = N * N;
    let name = format!("Mat{}<{}>", N, $layname);
    let site = format!("{}::{}/{}/{}/{}", name, stringify!($as_slice), stringify!($as_mut_slice), stringify!($as_ptr), stringify!($as_mut_ptr));
    mat_view_one!(s, &site, $M, $n, $lay, $lines, $V, $as_slice, $as_mut_slice, $as_ptr, $as_mut_ptr, u8, "u8", |x: u32| x as u8);
    mat_view_one!(s, &site, $M, $n, $lay, $lines, $V, $as_slice, $as_mut_slice, $as_ptr, $as_mut_ptr, u32, "u32", |x: u32| 100 + x);
    mat_view_one!(s, &site, $M, $n, $lay, $lines, $V, $as_slice, $as_mut_slice, $as_ptr, $as_mut_ptr, u128, "u128", |x: u32| ((x as u128 + 1) << 100) | x as u128);
    mat_view_one!(s, &site, $M, $n, $lay, $lines, $V, $as_slice, $as_mut_slice, $as_ptr, $as_mut_ptr, [u8; 3], "[u8;3]", |x: u32| [x as u8, !(x as u8), 7]);
    // (second audit) element sizes at the special values: zero-sized (every size test of the form `size_of::<Self>() == n * size_of::<T>()`
    // degenerates to 0 == 0) and an element with interior padding
    mat_view_one!(s, &site, $M, $n, $lay, $lines, $V, $as_slice, $as_mut_slice, $as_ptr, $as_mut_ptr, (), "()", |_x: u32| ());
    mat_view_one!(s, &site, $M, $n, $lay, $lines, $V, $as_slice, $as_mut_slice, $as_ptr, $as_mut_ptr, (u8, u32), "(u8,u32)", |x: u32| (x as u8, !x));
    { s.eval(true);
      let t = fresh(NN); let mut it = t.into_iter();
      let mut m = $lay::$M::<Tok> { $lines: <$V<$V<Tok>> as VecN<$V<Tok>>>::from_elems((0..N).map(|_| <$V<Tok> as VecN<Tok>>::from_elems((0..N).map(|_| it.next().unwrap()).collect())).collect()) };
      let want: Vec<*const Tok> = m.$lines.refs().into_iter().flat_map(|line| line.refs()).map(|r| r as *const Tok).collect();
      let g1: Vec<*const Tok> = m.$as_slice().iter().map(|e| e as *const Tok).collect();
      let g2: Vec<*const Tok> = m.$as_mut_slice().iter_mut().map(|e| e as *mut Tok as *const Tok).collect();
      if g1 != want || g2 != want { s.violation_w(&site, "view-entry-is-not-the-field-in-declaration-order", json!({"element": "Tok", "entries": [g1.len(), g2.len()], "want_entries": NN}), NN as u64); }
      if ids(m.$as_slice()) != (0..NN as u32).collect::<Vec<_>>() { s.violation_w(&site, "wrong-order", json!({"element": "Tok", "got": ids(m.$as_slice())}), NN as u64); }
      if g2 != want { drop(m); all_dropped_once(s, &site, NN); return; }
      // swap two entries through the view: still one owner each
      m.$as_mut_slice().swap(1, NN - 1);
      no_drops_yet(s, &site);
      // map_rows / map_cols move every line once
      let mm = m.$map_lines(|l| l.map(|t| (t, 0u8))); no_drops_yet(s, &site);
      let got: Vec<u32> = mm.$lines.into_elems().into_iter().flat_map(|l| l.into_elems()).map(|p| p.0.id).collect();
      let mut want_ids: Vec<u32> = (0..NN as u32).collect(); want_ids.swap(1, NN - 1);
      if got != want_ids { s.violation_w(&site, "wrong-order", json!({"after": "swap(1, last) through the mutable view, then map over the lines", "got": got}), NN as u64); }
      all_dropped_once(s, &site, NN); }
    s.class(&name);
    } let s_: &Section = $s; guarded(s_, format!("mat_views! {} {} {}", stringify!($V), stringify!($M), stringify!($lay)), || go(s_));
}} }

// =====================================================================================================
// Additions after the second (adversarial) audit (out/AUDIT2.md)
// =====================================================================================================

// ---- plain-data element types --------------------------------------------------------------------------
// Every section above runs the consuming iterator and the by-value conversions over ownership-tracked (non-Copy) elements only. A
// fast path keyed on `mem::needs_drop::<T>()`, on `size_of::<T>()`, or on "the default value is all zero bits" is never taken for
// them. The statement says "ALSO for element types that are not Copy": plain data is in scope, and there the oracle is the value.
/// Copy element without Drop; `of(i)` is lane-distinct (i < 255) and never the default value.
trait Plain: Copy + PartialEq + Debug + Default + 'static { const NAME: &'static str; fn of(i: u32) -> Self; }
impl Plain for u8 { const NAME: &'static str = "u8"; fn of(i: u32) -> u8 { (i % 255) as u8 + 1 } }
impl Plain for u32 { const NAME: &'static str = "u32"; fn of(i: u32) -> u32 { (i + 1) * 0x0101_0101 } }
impl Plain for f64 { const NAME: &'static str = "f64"; fn of(i: u32) -> f64 { -(i as f64) - 0.5 } }
impl Plain for u128 { const NAME: &'static str = "u128"; fn of(i: u32) -> u128 { ((i as u128 + 1) << 100) | i as u128 } }
impl Plain for [u8; 3] { const NAME: &'static str = "[u8;3]"; fn of(i: u32) -> [u8; 3] { [i as u8 + 1, !(i as u8), 7] } }
impl Plain for (u8, u32) { const NAME: &'static str = "(u8,u32): padded"; fn of(i: u32) -> (u8, u32) { (i as u8 + 1, !i) } }
/// plain data whose `Default` is NOT the all-zero bit pattern ("elements are initialized to their default values")
#[derive(Clone, Copy, PartialEq, Debug)]
struct Nz(u32);
impl Default for Nz { fn default() -> Nz { Nz(0xD5D5_0007) } }
impl Plain for Nz { const NAME: &'static str = "Nz: Copy, default != zero bits"; fn of(i: u32) -> Nz { Nz(i + 1) } }

/// The consuming iterator over plain data, every cursor state (f,b): the canonical pulls by value, length reports, Debug; then, each
/// on a freshly rebuilt iterator in that state: drain from the front / from the back / alternating (bounded loops, the reference
/// decides how many pulls), nth and nth_back for k in {0,1,3,usize::MAX} followed by draining the rest, rev().collect(), fold, rfold,
/// count, last, and collect() back into the same vector type (live range first, default tail).
fn plain_iter<V, E>(s: &Section)
where E: Plain, V: VecN<E> + IntoIterator<Item = E> + FromIterator<E> + 'static, V::IntoIter: DoubleEndedIterator + ExactSizeIterator + Debug {
    let n = V::N;
    let site = format!("{}::IntoIter<{}>", V::NAME, E::NAME);
    let vals: Vec<E> = (0..n as u32).map(E::of).collect();
    for (f, b) in cursor_states(n, true) {
        s.eval(f + b > 0);
        let w = (f + b) as u64;
        let rem = n - f - b;
        let live: Vec<E> = vals[f..n - b].to_vec();
        let rlive: Vec<E> = live.iter().rev().copied().collect();
        let r = catch(|| {
            let v = |class: &str, what: String| s.violation_w(&site, class, json!({"state(front,back pulls)": [f, b], "what": what}), w);
            let mk = |check: bool| -> Option<V::IntoIter> {
                let mut it = V::from_elems(vals.clone()).into_iter();
                for i in 0..f { let g = it.next(); if check && g != Some(vals[i]) { v("wrong-element-from-next", format!("pull #{} from the front gave {:?}, want {:?}", i, g, vals[i])); return None; } }
                for i in 0..b { let g = it.next_back(); if check && g != Some(vals[n - 1 - i]) { v("wrong-element-from-next_back", format!("pull #{} from the back gave {:?}, want {:?}", i, g, vals[n - 1 - i])); return None; } }
                Some(it)
            };
            let Some(mut it) = mk(true) else { return };
            if it.len() != rem || it.size_hint() != (rem, Some(rem)) { v("wrong-length-report", format!("remaining {}, len() = {}, size_hint() = {:?}", rem, it.len(), it.size_hint())); }
            let _ = format!("{:?} {:#?}", it, it);
            // drain from the front
            let mut got = Vec::new(); for _ in 0..rem { match it.next() { Some(x) => got.push(x), None => break } }
            if got != live { v("wrong-element-from-next", format!("draining from the front gave {:?}, want {:?}", got, live)); }
            if it.len() != 0 || it.next().is_some() || it.next_back().is_some() || it.next().is_some() || it.len() != 0 { v("wrong-element-from-next", "the drained iterator still yields or reports a non-zero length".into()); }
            drop(it);
            // drain from the back
            let mut it = mk(false).unwrap();
            let mut got = Vec::new(); for i in 0..rem { match it.next_back() { Some(x) => got.push(x), None => break } if it.len() != rem - 1 - i { v("wrong-length-report", format!("after {} pulls from the back of {}: len() = {}", i + 1, rem, it.len())); break; } }
            if got != rlive { v("wrong-element-from-next_back", format!("draining from the back gave {:?}, want {:?}", got, rlive)); }
            if it.next_back().is_some() || it.next().is_some() { v("wrong-element-from-next_back", "the drained iterator still yields".into()); }
            drop(it);
            // alternating ends
            let mut it = mk(false).unwrap();
            let (mut lo, mut hi, mut ok) = (0usize, rem, true);
            for i in 0..rem { let (g, want) = if i % 2 == 0 { lo += 1; (it.next(), live[lo - 1]) } else { hi -= 1; (it.next_back(), live[hi]) }; if g != Some(want) { ok = false; v("wrong-element-from-next", format!("alternating pull #{} gave {:?}, want {:?}", i, g, want)); break; } }
            if ok && (it.next().is_some() || it.len() != 0) { v("wrong-element-from-next", "the iterator drained from both ends still yields".into()); }
            drop(it);
            // nth / nth_back, then the rest
            for k in [0usize, 1, 3, usize::MAX] { for front in [true, false] {
                let mut it = mk(false).unwrap();
                let src = if front { &live } else { &rlive };
                let g = if front { it.nth(k) } else { it.nth_back(k) };
                let want = src.get(k).copied();
                let name = if front { "nth" } else { "nth_back" };
                if g != want { v("wrong-element-from-nth", format!("{}({}) on {} remaining gave {:?}, want {:?}", name, k, rem, g, want)); continue; }
                let rest: Vec<E> = if k < rem { src[k + 1..].to_vec() } else { vec![] };
                if it.len() != rest.len() { v("wrong-length-report", format!("after {}({}) on {} remaining: len() = {}, want {}", name, k, rem, it.len(), rest.len())); continue; }
                let mut got = Vec::new(); for _ in 0..rest.len() { match if front { it.next() } else { it.next_back() } { Some(x) => got.push(x), None => break } }
                if got != rest || it.next().is_some() { v("wrong-element-from-nth", format!("after {}({}) the rest is {:?}, want {:?}", name, k, got, rest)); }
            } }
            // consuming adaptors
            let g: Vec<E> = mk(false).unwrap().rev().collect(); if g != rlive { v("wrong-order-from-rev-collect", format!("rev().collect() gave {:?}, want {:?}", g, rlive)); }
            let g: Vec<E> = mk(false).unwrap().fold(Vec::new(), |mut a, x| { a.push(x); a }); if g != live { v("wrong-order-from-fold", format!("fold gave {:?}, want {:?}", g, live)); }
            let g: Vec<E> = mk(false).unwrap().rfold(Vec::new(), |mut a, x| { a.push(x); a }); if g != rlive { v("wrong-order-from-fold", format!("rfold gave {:?}, want {:?}", g, rlive)); }
            let c = mk(false).unwrap().count(); if c != rem { v("count-disagrees-with-remaining", format!("count() = {}, remaining {}", c, rem)); }
            let l = mk(false).unwrap().last(); if l != live.last().copied() { v("wrong-element-from-last", format!("last() = {:?}, want {:?}", l, live.last())); }
            // back into the same vector type
            let back: V = mk(false).unwrap().collect();
            let e = back.into_elems();
            if e[..rem] != live[..] { v("wrong-order", format!("collect() back into {} gave {:?}, want the prefix {:?}", V::NAME, e, live)); }
            else if e[rem..].iter().any(|x| *x != E::default()) { v("tail-not-default", format!("collect() back into {} gave {:?}, want {:?} after the first {} lanes", V::NAME, e, E::default(), rem)); }
        });
        if let Err(c) = r { s.violation_w(&site, "panic", json!({"state(front,back pulls)": [f, b], "what": format!("{:?}", c)}), w); }
    }
    s.class(E::NAME);
}

/// By-value conversions of one vector type over one plain-data element type.
macro_rules! plain_conv { ($s:expr, $V:ident, $n:expr, $E:ty) => {{
    #[inline(never)] fn go(s: &Section) { const N: usize = $n; type E = $E; let name = <$V<E> as VecN<E>>::NAME; let el = <E as Plain>::NAME;
    let vals: Vec<E> = (0..N as u32).map(<E as Plain>::of).collect();
    { let site = format!("From<[T;{}]> for {}<{}>", N, name, el); s.eval(true);
      let a: [E; N] = std::array::from_fn(|i| <E as Plain>::of(i as u32));
      let e = <$V<E> as VecN<E>>::into_elems($V::from(a)); if e != vals { s.violation(&site, "wrong-order", json!({"got": format!("{:?}", e), "want": format!("{:?}", vals)})); } }
    { let site = format!("{}<{}>::into_array", name, el); s.eval(true);
      let a = <$V<E> as VecN<E>>::from_elems(vals.clone()).into_array(); if a[..] != vals[..] { s.violation(&site, "wrong-order", json!({"got": format!("{:?}", a), "want": format!("{:?}", vals)})); } }
    { let site = format!("{}<{}>: slice views", name, el); s.eval(true);
      let mut v = <$V<E> as VecN<E>>::from_elems(vals.clone());
      if v.as_slice() != &vals[..] || v.as_mut_slice() != &vals[..] || !v.iter().eq(vals.iter()) { s.violation(&site, "wrong-order", json!({"got": format!("{:?}", v.as_slice())})); } }
    for len in 0..=N + 2 {
        let want: Vec<E> = (0..N).map(|i| if i < len { <E as Plain>::of(i as u32) } else { E::default() }).collect();
        let src: Vec<E> = (0..len as u32).map(<E as Plain>::of).collect();
        let cls = |got: &Vec<E>| if got[..len.min(N)] != want[..len.min(N)] { "wrong-order" } else { "tail-not-default" };
        { let site = format!("FromIterator for {}<{}>", name, el); s.eval(len != N);
          let got = <$V<E> as VecN<E>>::into_elems(src.iter().copied().collect::<$V<E>>());
          if got != want { s.violation_w(&site, cls(&got), json!({"iterator_length": len, "got": format!("{:?}", got), "want": format!("{:?}", want)}), len as u64); }
          let got = <$V<E> as VecN<E>>::into_elems(Lying { inner: src.iter().copied(), hint: (0, None) }.collect::<$V<E>>());
          if got != want { s.violation_w(&site, cls(&got), json!({"iterator_length": len, "size_hint": "(0, None)", "got": format!("{:?}", got), "want": format!("{:?}", want)}), len as u64); } }
        { let site = format!("{}<{}>::from_slice", name, el); s.eval(len != N);
          let got = <$V<E> as VecN<E>>::into_elems($V::<E>::from_slice(&src));
          if got != want { s.violation_w(&site, cls(&got), json!({"slice_length": len, "got": format!("{:?}", got), "want": format!("{:?}", want)}), len as u64); } }
    }
    } let s_: &Section = $s; guarded(s_, format!("plain_conv! {} {}", stringify!($V), stringify!($E)), || go(s_));
}} }

/// The eight by-value matrix conversions over one plain-data element type; element (i,j) = of(i*N + j) (not symmetric).
macro_rules! plain_mat { ($s:expr, $M:ident, $n:expr, $lay:ident, $layname:expr, $lines:ident, $V:ident, $E:ty) => {{
    #[inline(never)] fn go(s: &Section) { const N: usize = $n; const NN: usize = N * N; type E = $E; let el = <E as Plain>::NAME;
    let name = format!("Mat{}<{}><{}>", N, $layname, el);
    let at = |i: usize, j: usize| <E as Plain>::of((i * N + j) as u32);
    let build = || -> $lay::$M<E> { $lay::$M { $lines: <$V<$V<E>> as VecN<$V<E>>>::from_elems((0..N).map(|k| <$V<E> as VecN<E>>::from_elems((0..N).map(|l| if $layname == "row" { at(k, l) } else { at(l, k) }).collect())).collect()) } };
    let decode = |m: $lay::$M<E>| -> Vec<Vec<E>> { // [i][j]
        let lines: Vec<Vec<E>> = <$V<$V<E>> as VecN<$V<E>>>::into_elems(m.$lines).into_iter().map(|l| <$V<E> as VecN<E>>::into_elems(l)).collect();
        (0..N).map(|i| (0..N).map(|j| if $layname == "row" { lines[i][j] } else { lines[j][i] }).collect()).collect()
    };
    let flat: [E; NN] = std::array::from_fn(|x| <E as Plain>::of(x as u32));
    let nested: [[E; N]; N] = std::array::from_fn(|a| std::array::from_fn(|b| <E as Plain>::of((a * N + b) as u32)));
    let want_rows: Vec<E> = flat.to_vec();
    let want_cols: Vec<E> = (0..N).flat_map(|j| (0..N).map(move |i| (i, j))).map(|(i, j)| at(i, j)).collect();
    let want_ij: Vec<Vec<E>> = (0..N).map(|i| (0..N).map(|j| at(i, j)).collect()).collect();
    let want_t: Vec<Vec<E>> = (0..N).map(|i| (0..N).map(|j| at(j, i)).collect()).collect();
    let bad = |f: &str, got: String| s.violation_w(&format!("{}::{}", name, f), "wrong-order", json!({"got": got, "element (i,j) is": "of(i*N+j)"}), NN as u64);
    s.evals(8, 8);
    { let a = build().into_row_array(); if a[..] != want_rows[..] { bad("into_row_array", format!("{:?}", a)); } }
    { let a = build().into_col_array(); if a[..] != want_cols[..] { bad("into_col_array", format!("{:?}", a)); } }
    { let a = build().into_row_arrays(); let g: Vec<E> = a.iter().flatten().copied().collect(); if g != want_rows { bad("into_row_arrays", format!("{:?}", a)); } }
    { let a = build().into_col_arrays(); let g: Vec<E> = a.iter().flatten().copied().collect(); if g != want_cols { bad("into_col_arrays", format!("{:?}", a)); } }
    { let g = decode($lay::$M::from_row_array(flat)); if g != want_ij { bad("from_row_array", format!("{:?}", g)); } }
    { let g = decode($lay::$M::from_col_array(flat)); if g != want_t { bad("from_col_array", format!("{:?}", g)); } }
    { let g = decode($lay::$M::from_row_arrays(nested)); if g != want_ij { bad("from_row_arrays", format!("{:?}", g)); } }
    { let g = decode($lay::$M::from_col_arrays(nested)); if g != want_t { bad("from_col_arrays", format!("{:?}", g)); } }
    // round trips through the other orientation (a call SEQUENCE: what one conversion wrote is what the next one reads)
    s.evals(2, 2);
    { let g = decode($lay::$M::from_col_arrays(build().into_col_arrays())); if g != want_ij { bad("from_col_arrays(into_col_arrays)", format!("{:?}", g)); } }
    { let g = decode($lay::$M::from_row_array(build().into_col_array())); if g != want_t { bad("from_row_array(into_col_array)", format!("{:?}", g)); } }
    s.class(&format!("Mat{}<{}>", N, $layname));
    } let s_: &Section = $s; guarded(s_, format!("plain_mat! {} {} {}", stringify!($M), stringify!($lay), stringify!($E)), || go(s_));
}} }

/// A consuming iterator of vector type A in every cursor state collected into ANOTHER vector type B (shorter or longer): the first
/// min(remaining, N_B) live elements land in order, the tail is fresh defaults, the elements that do not fit are dropped exactly once
/// (by A's iterator, which `from_iter` owns), nothing is duplicated or leaked.
fn collect_across<A, B>(s: &Section)
where A: VecN<Tok> + IntoIterator<Item = Tok> + 'static, A::IntoIter: DoubleEndedIterator + ExactSizeIterator, B: VecN<Tok> + FromIterator<Tok> + 'static {
    let (na, nb) = (A::N, B::N);
    let site = format!("{}::into_iter() .. collect::<{}>()", A::NAME, B::NAME);
    for (f, b) in cursor_states(na, na <= 8 || s.thorough()) {
        for rev in [false, true] {
            s.eval(true);
            let w = (f + b) as u64;
            let r = catch(|| {
                tok::reset();
                let v = A::from_elems((0..na).map(|_| Tok::new()).collect());
                let mut it = v.into_iter();
                let mut held = Vec::new();
                for _ in 0..f { held.extend(it.next()); }
                for _ in 0..b { held.extend(it.next_back()); }
                for t in &held { tok::mark_yielded(t.id); }
                let mut live: Vec<u32> = (f as u32..(na - b) as u32).collect(); if rev { live.reverse(); }
                let out: B = if rev { it.rev().collect() } else { it.collect() };
                let fit = live.len().min(nb);
                let mut early: Vec<u32> = tok::dropped_ids().into_iter().filter(|&id| (id as usize) < na).collect(); early.sort();
                let mut excess: Vec<u32> = live[fit..].to_vec(); excess.sort();
                if early != excess { s.violation_w(&site, if early.len() > excess.len() { "element-dropped-during-conversion" } else { "element-leaked" }, json!({"state": [f, b], "reversed": rev, "dropped_by_the_conversion": early, "elements_that_do_not_fit": excess}), w); }
                let e = out.into_elems(); let got = ids(&e);
                if got[..fit] != live[..fit] { s.violation_w(&site, "wrong-order", json!({"state": [f, b], "reversed": rev, "got": got, "want_prefix": &live[..fit]}), w); }
                if got[fit..].iter().any(|&id| (id as usize) < na) { s.violation_w(&site, "tail-not-default", json!({"state": [f, b], "reversed": rev, "got": got}), w); }
                if held.iter().any(|t| tok::state(t.id) == St::Dropped) { s.violation_w(&site, "drop-drops-yielded-element", json!({"state": [f, b], "reversed": rev}), w); }
                drop(e); drop(held);
                if let Some(fl) = tok::faults().into_iter().next() { s.violation_w(&site, "ledger-fault", json!({"state": [f, b], "reversed": rev, "what": fl}), w); }
                if tok::states().iter().any(|x| *x != St::Dropped) { s.violation_w(&site, "element-leaked", json!({"state": [f, b], "reversed": rev}), w); }
            });
            if let Err(c) = r { s.violation_w(&site, "panic", json!({"state": [f, b], "reversed": rev, "what": format!("{:?}", c)}), w); }
        }
    }
    s.class("collect across vector types");
}

fn main() {
    let rep = Report::start("C18", "model_checking");
    let mut tot = McTotals { states: 0, transitions: 0, max_depth: 0, samples: Vec::new() };

    rep.section("consuming iterator: every reachable (front, back) state and transition, per vector type",
        "stateright BFS (one worker, so that the recorded depths stay deterministic now that nth() creates shortcuts; run twice, counts compared) over states (f,b) = elements pulled from the front/back, actions {next, next_back, len+size_hint, observe ({:?}, {:#?}, ==, !=, Hash with the ledger watching), drop, nth(k) and nth_back(k) for k in {1,3} (thorough: every k in 1..=N; the skipped elements must be dropped once by the iterator and never handed out, the rest is drained against the reference), count(), last(), rev().collect() (terminal: lead to the dropped twin); second audit: skip counts also 0 and usize::MAX, fold and rfold called directly and with a closure that panics on its second element (the iterator is dropped by unwinding mid-traversal: the element in the closure's hands is the closure's, the rest is dropped once by the iterator), and after every pull beyond exhaustion the other end, the same end, len/size_hint and the observation set are probed twice}; a panic of the real code is a violation of class `panic`; every transition rebuilds a REAL vek IntoIter over fresh ownership tokens, replays the canonical path, applies the action and compares with a reference deque and the drop ledger; the search runs to its fixpoint ((N+1)(N+2)/2 live states + their dropped twins, (12 + 2|K|) transitions per live state, both counts checked), no depth cap; non-trivial: all transitions", true, false, |s| {
        s.require_classes(&["Vec2", "Vec3", "Vec4", "Vec8", "Vec16", "Vec32", "Vec64", "Extent2", "Extent3", "Rgb", "Rgba", "Uv", "Uvw"]);
        for_all_vecs!(V => { model_check::<V<Tok>>(s, &mut tot); });
        for smp in &tot.samples { s.sample(smp.clone()); }
    });

    rep.section("consuming iterator: all unmerged histories for N <= 4",
        "every sequence over {next, next_back, len, observe} of length <= N+3 (thorough: N+6), each followed by drop, executed from scratch on one real iterator with NO state merging, for the 9 vector types with N <= 4; reference deque + ledger at every step, and the set of yielded elements for (f,b) reached backs-first must equal the one reached fronts-first; non-trivial: non-empty histories", true, false, |s| {
        let extra = if s.thorough() { 6 } else { 3 };
        histories::<Vec2<Tok>>(s, 2 + extra); histories::<Vec3<Tok>>(s, 3 + extra); histories::<Vec4<Tok>>(s, 4 + extra);
        histories::<Extent2<Tok>>(s, 2 + extra); histories::<Extent3<Tok>>(s, 3 + extra);
        histories::<Rgb<Tok>>(s, 3 + extra); histories::<Rgba<Tok>>(s, 4 + extra); histories::<Uv<Tok>>(s, 2 + extra); histories::<Uvw<Tok>>(s, 3 + extra);
    });

    rep.section("two consuming iterators in different cursor states compared with each other",
        "for each of the 13 vector types: every ordered pair of cursor states (f1,b1),(f2,b2) (all states for N <= 8, thorough: all states for every N, i.e. 2145^2 pairs for Vec64; quick: cursors from {0,1,2,N/2,N-2,N-1,N} for N >= 16) of two REAL iterators over separately tracked tokens whose live windows start with equal values: a == b, b == a, a != b with the ledger watching - no element already yielded by either iterator may be read, == is symmetric and != its negation; afterwards the ledger balances; non-trivial: the two states differ", true, false, |s| {
        s.require_classes(&["Vec2", "Vec3", "Vec4", "Vec8", "Vec16", "Vec32", "Vec64", "Extent2", "Extent3", "Rgb", "Rgba", "Uv", "Uvw"]);
        for_all_vecs!(V => { compare_pairs::<V<Tok>>(s); });
    });

    rep.section("conversions move each element exactly once and keep the documented order",
        "for each of the 13 vector types with ownership tokens: From<[T;N]>, into_array, collect() for EVERY iterator length 0..N+2, map, zip, slice views (as_slice, Deref, AsRef, Borrow, as_mut_slice, AsMut, DerefMut: same base address, length N, writes through the view visible in the fields); into_tuple/From<tuple> for all 13 types (2..64 lanes); for the 6 matrix types: {into,from}_{row,col}_array(s); ledger: nothing dropped during the conversion, everything dropped exactly once afterwards; non-trivial: all", true, false, |s| {
        s.require_classes(&["Vec2", "Vec64", "Rgba", "Mat4<row>", "Mat4<col>", "Mat2<col>", "Mat3<row>"]);
        conv_vec!(s, Vec2, 2); conv_vec!(s, Vec3, 3); conv_vec!(s, Vec4, 4); conv_vec!(s, Vec8, 8); conv_vec!(s, Vec16, 16); conv_vec!(s, Vec32, 32); conv_vec!(s, Vec64, 64);
        conv_vec!(s, Extent2, 2); conv_vec!(s, Extent3, 3); conv_vec!(s, Rgb, 3); conv_vec!(s, Rgba, 4); conv_vec!(s, Uv, 2); conv_vec!(s, Uvw, 3);
        conv_tuple!(s, Vec2, [0, 1], 2); conv_tuple!(s, Vec3, [0, 1, 2], 3); conv_tuple!(s, Vec4, [0, 1, 2, 3], 4); conv_tuple!(s, Extent2, [0, 1], 2); conv_tuple!(s, Extent3, [0, 1, 2], 3);
        conv_tuple!(s, Rgb, [0, 1, 2], 3); conv_tuple!(s, Rgba, [0, 1, 2, 3], 4); conv_tuple!(s, Uv, [0, 1], 2); conv_tuple!(s, Uvw, [0, 1, 2], 3); conv_tuple!(s, Vec8, [0, 1, 2, 3, 4, 5, 6, 7], 8);
        conv_tuple!(s, Vec16, [0, 1, 2, 3, 4, 5, 6, 7, 8, 9, 10, 11, 12, 13, 14, 15], 16);
        conv_tuple!(s, Vec32, [0, 1, 2, 3, 4, 5, 6, 7, 8, 9, 10, 11, 12, 13, 14, 15, 16, 17, 18, 19, 20, 21, 22, 23, 24, 25, 26, 27, 28, 29, 30, 31], 32);
        conv_tuple!(s, Vec64, [0, 1, 2, 3, 4, 5, 6, 7, 8, 9, 10, 11, 12, 13, 14, 15, 16, 17, 18, 19, 20, 21, 22, 23, 24, 25, 26, 27, 28, 29, 30, 31, 32, 33, 34, 35, 36, 37, 38, 39, 40, 41, 42, 43, 44, 45, 46, 47, 48, 49, 50, 51, 52, 53, 54, 55, 56, 57, 58, 59, 60, 61, 62, 63], 64);
        conv_mat!(s, Mat2, 2, rm, "row", rows, Vec2); conv_mat!(s, Mat2, 2, cm, "col", cols, Vec2);
        conv_mat!(s, Mat3, 3, rm, "row", rows, Vec3); conv_mat!(s, Mat3, 3, cm, "col", cols, Vec3);
        conv_mat!(s, Mat4, 4, rm, "row", rows, Vec4); conv_mat!(s, Mat4, 4, cm, "col", cols, Vec4);
        s.sample(json!({"call": "row_major::Mat3<Tok>::into_col_array()", "element (i,j) has id": "3i+j", "want ids": [0, 3, 6, 1, 4, 7, 2, 5, 8], "ledger": "no drop before the array is dropped, then 9 drops"}));
        s.sample(json!({"call": "(0..5 tokens).collect::<Vec3<Tok>>()", "want": "ids [0,1,2] kept in order; tokens 3,4 never pulled or dropped once; no leak"}));
    });


    rep.section("consuming iterator: unmerged pull orders for 8 and 16 lanes",
        "every sequence over {next, next_back} of length <= N+1 (all 2^(N+2)-1 of them: every order of draining, and a pull beyond exhaustion), each executed from scratch on one real iterator with NO state merging, for Vec8 (thorough: also Vec16); after EVERY pull: len/size_hint against the reference deque and Debug/Hash/== with the ledger watching; then drop: exactly the live range is dropped, ledger balanced; non-trivial: non-empty histories", true, false, |s| {
        s.require_classes(&["Vec8"]);
        pull_histories::<Vec8<Tok>>(s);
        if s.thorough() { pull_histories::<Vec16<Tok>>(s); }
    });

    rep.section("element shapes: sizes, alignments and zero-sized droppable elements",
        "the element type ranges over 6 shapes of non-Copy element: Tok (8 bytes, align 4), token+u8 (12 bytes), token+u128 (align 16), token+[u64;5] (48 bytes), token+align(32) payload (64 bytes), and a zero-sized element whose Drop counts; payloads are derived from the id, so a read of the wrong offset/width is seen. For each of the 13 vector types x 6 shapes: the consuming iterator in every cursor state (all (f,b) for N <= 8, thorough: all N; else cursors {0,1,2,N/2,N-2,N-1,N}) - pulls by id and payload, length reports, {:?}/{:#?}/Hash/==/!= with the ledger watching, nothing dropped before the iterator, exactly the live range dropped by it, yielded elements intact afterwards; From<[T;N]>, into_array, collect() for lengths {0,1,N-1,N,N+2}, as_slice/as_mut_slice entry addresses = field addresses. For the 6 matrix types x 6 shapes: {into,from}_{row,col}_array(s). non-trivial: at least one pull / iterator length != N / all conversions", true, false, |s| {
        s.require_classes(&["Tok: 8 bytes", "(Tok,u8): 12 bytes", "(Tok,u128): align 16", "(Tok,[u64;5]): 48 bytes", "(Tok,align32): align 32, 64 bytes", "zero-sized with Drop", "Mat2<row>", "Mat3<col>", "Mat4<row>", "Mat4<col>"]);
        macro_rules! shapes_for_vec { ($V:ident, $n:expr) => {{
            shape_iter::<$V<Tok>, Tok>(s); shape_iter::<$V<Pad<u8>>, Pad<u8>>(s); shape_iter::<$V<Pad<u128>>, Pad<u128>>(s); shape_iter::<$V<Pad<[u64; 5]>>, Pad<[u64; 5]>>(s); shape_iter::<$V<Pad<Al32>>, Pad<Al32>>(s); shape_iter::<$V<Zst>, Zst>(s);
            shape_conv!(s, $V, $n, Pad<u8>); shape_conv!(s, $V, $n, Pad<u128>); shape_conv!(s, $V, $n, Pad<[u64; 5]>); shape_conv!(s, $V, $n, Pad<Al32>); shape_conv!(s, $V, $n, Zst);
        }} }
        shapes_for_vec!(Vec2, 2); shapes_for_vec!(Vec3, 3); shapes_for_vec!(Vec4, 4); shapes_for_vec!(Vec8, 8); shapes_for_vec!(Vec16, 16); shapes_for_vec!(Vec32, 32); shapes_for_vec!(Vec64, 64);
        shapes_for_vec!(Extent2, 2); shapes_for_vec!(Extent3, 3); shapes_for_vec!(Rgb, 3); shapes_for_vec!(Rgba, 4); shapes_for_vec!(Uv, 2); shapes_for_vec!(Uvw, 3);
        macro_rules! shapes_for_mat { ($M:ident, $n:expr, $lay:ident, $layname:expr, $lines:ident, $V:ident) => {{
            shape_mat!(s, $M, $n, $lay, $layname, $lines, $V, Pad<u8>); shape_mat!(s, $M, $n, $lay, $layname, $lines, $V, Pad<u128>); shape_mat!(s, $M, $n, $lay, $layname, $lines, $V, Pad<[u64; 5]>); shape_mat!(s, $M, $n, $lay, $layname, $lines, $V, Pad<Al32>); shape_mat!(s, $M, $n, $lay, $layname, $lines, $V, Zst);
        }} }
        shapes_for_mat!(Mat2, 2, rm, "row", rows, Vec2); shapes_for_mat!(Mat2, 2, cm, "col", cols, Vec2);
        shapes_for_mat!(Mat3, 3, rm, "row", rows, Vec3); shapes_for_mat!(Mat3, 3, cm, "col", cols, Vec3);
        shapes_for_mat!(Mat4, 4, rm, "row", rows, Vec4); shapes_for_mat!(Mat4, 4, cm, "col", cols, Vec4);
        s.meta("sizes", json!({"Tok": [std::mem::size_of::<Tok>(), std::mem::align_of::<Tok>()], "(Tok,u8)": [std::mem::size_of::<Pad<u8>>(), std::mem::align_of::<Pad<u8>>()], "(Tok,u128)": [std::mem::size_of::<Pad<u128>>(), std::mem::align_of::<Pad<u128>>()], "(Tok,[u64;5])": [std::mem::size_of::<Pad<[u64; 5]>>(), std::mem::align_of::<Pad<[u64; 5]>>()], "(Tok,align32)": [std::mem::size_of::<Pad<Al32>>(), std::mem::align_of::<Pad<Al32>>()], "Zst": [std::mem::size_of::<Zst>(), std::mem::align_of::<Zst>()]}));
        s.sample(json!({"call": "Vec3<Zst>::into_iter(), next(), next_back(), drop", "want": "3 created; 0 dropped before the iterator is dropped; the iterator drops exactly 1; the 2 yielded ones are dropped by the caller"}));
        s.sample(json!({"call": "column_major::Mat3<(Tok,u128)>::from_row_arrays(a)", "want": "element (i,j) = a[i][j] with its payload intact, nothing dropped during the conversion, 9 drops afterwards"}));
    });

    rep.section("slice views entry by entry against the field addresses; slices, tuples and iterators as sources",
        "for each of the 13 vector types x element types {u8, u32, u64, u128, [u8;3], (), Tok}: the twelve views as_slice, Deref, AsRef<[T]>, Borrow<[T]>, IntoIterator for &V, iter(), as_mut_slice, DerefMut, AsMut<[T]>, BorrowMut<[T]>, IntoIterator for &mut V, iter_mut() - the address of EVERY entry equals the address of the public field in declaration order (so: N entries, own storage, order), AsRef<Self>/AsMut<Self> are the value itself; for the Copy elements a write of lane-distinct values through each of the six mutable views on every lane, read back through the fields, and the fields read back through the shared views; from_slice for every slice length 0..N+2 (prefix in order, default tail); From<(smaller vector, scalar)> for the 5 pairs; map2/map3; a consuming iterator in every cursor state collected back (and reversed) into the same vector type; FromIterator from sources with lying size_hints for every length (4 far-off lies + exact / lower-only / upper-only hints at 1, len-1, len, len+1, N-1, N, N+1, 2N), and from a source that panics after k < N elements (no double drop while unwinding); Sum/Product of 0..3 vectors of a non-Copy numeric element; for the 6 matrix types: as_{row,col}_slice / as_mut_{row,col}_slice / as_{row,col}_ptr / as_mut_{row,col}_ptr entry addresses = field addresses in storage order for {u8,u32,u128,[u8;3],(),(u8,u32),Tok}, write-through on every entry, a swap through the mutable view followed by map_rows/map_cols with the ledger; non-trivial: all but the honest-length cases", true, false, |s| {
        s.require_classes(&["Vec2", "Vec3", "Vec4", "Vec8", "Vec16", "Vec32", "Vec64", "Extent2", "Extent3", "Rgb", "Rgba", "Uv", "Uvw", "from_slice", "From<(smaller vector, scalar)>", "map2/map3", "into_iter..collect", "hostile sources", "Sum/Product", "Mat2<row>", "Mat2<col>", "Mat3<row>", "Mat3<col>", "Mat4<row>", "Mat4<col>"]);
        macro_rules! more_for_vec { ($V:ident, $n:expr) => {{
            views_all!(s, $V, $n); from_slice!(s, $V, $n); conv_mapn!(s, $V, $n);
            collect_back::<$V<Tok>>(s); hostile_sources::<$V<Tok>>(s); sums::<$V<Cnt>>(s);
        }} }
        more_for_vec!(Vec2, 2); more_for_vec!(Vec3, 3); more_for_vec!(Vec4, 4); more_for_vec!(Vec8, 8); more_for_vec!(Vec16, 16); more_for_vec!(Vec32, 32); more_for_vec!(Vec64, 64);
        more_for_vec!(Extent2, 2); more_for_vec!(Extent3, 3); more_for_vec!(Rgb, 3); more_for_vec!(Rgba, 4); more_for_vec!(Uv, 2); more_for_vec!(Uvw, 3);
        conv_smaller!(s, Vec3, Vec2, 3); conv_smaller!(s, Vec4, Vec3, 4); conv_smaller!(s, Extent3, Extent2, 3); conv_smaller!(s, Rgba, Rgb, 4); conv_smaller!(s, Uvw, Uv, 3);
        mat_views!(s, Mat2, 2, rm, "row", rows, Vec2, as_row_slice, as_mut_row_slice, as_row_ptr, as_mut_row_ptr, map_rows);
        mat_views!(s, Mat3, 3, rm, "row", rows, Vec3, as_row_slice, as_mut_row_slice, as_row_ptr, as_mut_row_ptr, map_rows);
        mat_views!(s, Mat4, 4, rm, "row", rows, Vec4, as_row_slice, as_mut_row_slice, as_row_ptr, as_mut_row_ptr, map_rows);
        mat_views!(s, Mat2, 2, cm, "col", cols, Vec2, as_col_slice, as_mut_col_slice, as_col_ptr, as_mut_col_ptr, map_cols);
        mat_views!(s, Mat3, 3, cm, "col", cols, Vec3, as_col_slice, as_mut_col_slice, as_col_ptr, as_mut_col_ptr, map_cols);
        mat_views!(s, Mat4, 4, cm, "col", cols, Vec4, as_col_slice, as_mut_col_slice, as_col_ptr, as_mut_col_ptr, map_cols);
        s.sample(json!({"call": "Vec64<u128>: (&mut v).into_iter()", "want": "64 entries, entry i at the address of field .i; writing 64 distinct values through it changes exactly those fields"}));
        s.sample(json!({"call": "Vec4::<u32>::from_slice(&[7, 10])", "want": [7, 10, 0, 0]}));
        s.sample(json!({"call": "Vec4<Tok>: into_iter(), next(), next_back(), rev().collect::<Vec4<Tok>>()", "want": "ids [2, 1, fresh, fresh]; 0 and 3 held by the caller; every token dropped once"}));
    });

    rep.section("second audit: plain-data (Copy) element types by value; iterators collected across vector types",
        "the element type ranges over 7 plain-data types without Drop: u8, u32, f64, u128, [u8;3], (u8,u32) with padding, and Nz (Copy, Default = 0xD5D50007, i.e. NOT the all-zero bit pattern); values are lane-distinct and never the default, the oracle is the VALUE (struct-literal build, field decode). For each of the 13 vector types x 7 element types: the consuming iterator in EVERY cursor state (f,b) of every N (both tiers): canonical pulls, len/size_hint, Debug, then on rebuilt iterators in that state: drain front / back / alternating with bounded loops and a pull beyond exhaustion from both ends, nth and nth_back for k in {0,1,3,usize::MAX} + the rest, rev().collect(), fold, rfold, count, last, collect() back (default tail); From<[T;N]>, into_array, slice values, collect() and from_slice for EVERY length 0..N+2 (also behind a (0,None) size hint) with the tail compared to T::default(). For the 6 matrix types x 7 element types: the eight {into,from}_{row,col}_array(s) by value and two round trips through the other orientation. With ownership tokens: a consuming iterator of type A in every cursor state, forward and reversed, collected into a DIFFERENT vector type B for 14 ordered pairs (shorter and longer): prefix in order, default tail, the elements that do not fit dropped exactly once, ledger balanced. non-trivial: at least one pull / length != N / all conversions", true, false, |s| {
        s.require_classes(&["u8", "u32", "f64", "u128", "[u8;3]", "(u8,u32): padded", "Nz: Copy, default != zero bits", "Mat2<row>", "Mat2<col>", "Mat3<row>", "Mat3<col>", "Mat4<row>", "Mat4<col>", "collect across vector types"]);
        macro_rules! plain_for_vec { ($V:ident, $n:expr) => {{
            plain_iter::<$V<u8>, u8>(s); plain_iter::<$V<u32>, u32>(s); plain_iter::<$V<f64>, f64>(s); plain_iter::<$V<u128>, u128>(s); plain_iter::<$V<[u8; 3]>, [u8; 3]>(s); plain_iter::<$V<(u8, u32)>, (u8, u32)>(s); plain_iter::<$V<Nz>, Nz>(s);
            plain_conv!(s, $V, $n, u8); plain_conv!(s, $V, $n, u32); plain_conv!(s, $V, $n, f64); plain_conv!(s, $V, $n, u128); plain_conv!(s, $V, $n, [u8; 3]); plain_conv!(s, $V, $n, (u8, u32)); plain_conv!(s, $V, $n, Nz);
        }} }
        plain_for_vec!(Vec2, 2); plain_for_vec!(Vec3, 3); plain_for_vec!(Vec4, 4); plain_for_vec!(Vec8, 8); plain_for_vec!(Vec16, 16); plain_for_vec!(Vec32, 32); plain_for_vec!(Vec64, 64);
        plain_for_vec!(Extent2, 2); plain_for_vec!(Extent3, 3); plain_for_vec!(Rgb, 3); plain_for_vec!(Rgba, 4); plain_for_vec!(Uv, 2); plain_for_vec!(Uvw, 3);
        macro_rules! plain_for_mat { ($M:ident, $n:expr, $lay:ident, $layname:expr, $lines:ident, $V:ident) => {{
            plain_mat!(s, $M, $n, $lay, $layname, $lines, $V, u8); plain_mat!(s, $M, $n, $lay, $layname, $lines, $V, u32); plain_mat!(s, $M, $n, $lay, $layname, $lines, $V, f64); plain_mat!(s, $M, $n, $lay, $layname, $lines, $V, u128);
            plain_mat!(s, $M, $n, $lay, $layname, $lines, $V, [u8; 3]); plain_mat!(s, $M, $n, $lay, $layname, $lines, $V, (u8, u32)); plain_mat!(s, $M, $n, $lay, $layname, $lines, $V, Nz);
        }} }
        plain_for_mat!(Mat2, 2, rm, "row", rows, Vec2); plain_for_mat!(Mat2, 2, cm, "col", cols, Vec2);
        plain_for_mat!(Mat3, 3, rm, "row", rows, Vec3); plain_for_mat!(Mat3, 3, cm, "col", cols, Vec3);
        plain_for_mat!(Mat4, 4, rm, "row", rows, Vec4); plain_for_mat!(Mat4, 4, cm, "col", cols, Vec4);
        collect_across::<Vec4<Tok>, Vec2<Tok>>(s); collect_across::<Vec2<Tok>, Vec4<Tok>>(s); collect_across::<Vec3<Tok>, Rgba<Tok>>(s); collect_across::<Rgba<Tok>, Rgb<Tok>>(s);
        collect_across::<Vec8<Tok>, Vec3<Tok>>(s); collect_across::<Vec3<Tok>, Vec8<Tok>>(s); collect_across::<Vec64<Tok>, Vec16<Tok>>(s); collect_across::<Vec16<Tok>, Vec64<Tok>>(s);
        collect_across::<Vec32<Tok>, Extent2<Tok>>(s); collect_across::<Uv<Tok>, Vec32<Tok>>(s); collect_across::<Extent3<Tok>, Uvw<Tok>>(s); collect_across::<Uvw<Tok>, Extent3<Tok>>(s);
        collect_across::<Extent2<Tok>, Uv<Tok>>(s); collect_across::<Rgb<Tok>, Extent3<Tok>>(s);
        s.sample(json!({"call": "Vec4::<Nz>::from_slice(&[Nz(1), Nz(2)])", "want": "[Nz(1), Nz(2), Nz(0xD5D50007), Nz(0xD5D50007)] (the tail is T::default(), not zero bits)"}));
        s.sample(json!({"call": "column_major::Mat3::<u32>::from_row_array([of(0), .., of(8)]).cols", "want": "element (i,j) = of(3i+j), i.e. cols.x = (of(0), of(3), of(6))"}));
        s.sample(json!({"call": "Vec8<Tok>: into_iter(), next(), next_back(), collect::<Vec3<Tok>>()", "want": "ids [1,2,3]; 4,5,6 dropped once by the conversion; 0 and 7 held by the caller"}));
    });

    let lk = json!({"states": tot.states, "transitions": tot.transitions, "traces_validated_against_impl": tot.transitions, "max_depth": tot.max_depth,
        "explanation": "states/transitions summed over the 13 per-type models; every transition is executed on the real IntoIter (the model IS the implementation plus a reference deque), so traces validated = transitions; max_depth is the BFS depth (nth(k) shortcuts make it smaller than N)"});
    std::process::exit(rep.finish_with(lk));
}
