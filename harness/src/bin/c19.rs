//! C19 — vector kind/size conversions, swizzles, shuffles and colour helpers keep elements.
//!
//! Routing claims (which element ends up where) are decided on pairwise distinct opaque `Sym`s built by
//! struct literal and decoded by field access: the functions are parametric in `T`, so one run on
//! distinct generators is the most general input.  The commutation law with matrix size conversion is
//! a polynomial identity decided on a simplex lattice over exact rationals.  Colour arithmetic is run
//! on every `ColorComponent` type with an independent reference (i128 / exact rational arithmetic).
#![allow(deprecated)]
use std::collections::BTreeMap;
use std::fmt::Debug;
use std::num::Wrapping;
use std::ops::*;
use vek::ops::ColorComponent;
use vek::vec::repr_c::{Extent2, Extent3, Rgb, Rgba, Uv, Uvw, Vec16, Vec32, Vec64, Vec8};
use vek::vec::ShuffleMask4;
use vx::fr::Deg;
use vx::lattice::*;
use vx::matx::*;
use vx::term::{Node, Sym, Term};
use vx::*;

const ZERO: Sym = Sym(0);
const ONE: Sym = Sym(1);
const FULL: Sym = Sym(0xFFFF); // `ColorComponent for Sym`

/// count one evaluation, compare, report
fn chk<T: PartialEq + Debug>(s: &Section, site: &str, class: &str, input: &dyn Fn() -> Value, got: Option<T>, want: &T, nontrivial: bool, weight: u64) -> bool {
    s.eval(nontrivial);
    match got {
        Some(g) if &g != want => { s.violation_w(site, class, json!({"input": input(), "got": jd(&g), "want": jd(want)}), weight); false }
        _ => true,
    }
}

/// `chk` for the opaque-symbol (routing) sections.  `Sym` has no arithmetic: when the real code adds or
/// multiplies elements the call is aborted as *unmodelled* and `s.call` yields `None`, which `chk` lets
/// pass.  A conversion / swizzle / shuffle must only move elements, so in these sections a missing result
/// is itself a violation (class "not-pure-routing").
fn chk_sym<T: PartialEq + Debug>(s: &Section, site: &str, class: &str, input: &dyn Fn() -> Value, got: Option<T>, want: &T, nontrivial: bool, weight: u64) -> bool {
    if got.is_none() {
        s.violation_w(site, "not-pure-routing", json!({"input": input(), "want": jd(want), "note": "the call did not return on opaque symbols: it performed arithmetic on the elements (or panicked); it must only move them"}), weight);
    }
    chk(s, site, class, input, got, want, nontrivial, weight)
}

// =================================================================================================
// 1. the table of `From` impls between vector kinds / sizes found in src/vec.rs
// =================================================================================================
#[derive(Clone, Copy, PartialEq, Debug)]
enum Pad { Keep, Zero, Scalar, FullAlpha }
struct Row { dst: &'static str, src: &'static str, nsrc: usize, ndst: usize, pad: Pad }
const fn row(dst: &'static str, src: &'static str, nsrc: usize, ndst: usize, pad: Pad) -> Row { Row { dst, src, nsrc, ndst, pad } }
/// Every `impl From<..> for ..` between the named vector kinds in vec.rs (lines 3172-3180 via
/// `vec_impl_from_smaller_vec_and_scalar!`, and 3245-3690).  Routing rule: the first
/// min(nsrc, ndst) source elements in order, then the padding.
const FROM_TABLE: &[Row] = &[
    // ---- into Vec2
    row("Vec2", "Vec3", 3, 2, Pad::Keep),
    row("Vec2", "Vec4", 4, 2, Pad::Keep),
    row("Vec2", "Extent2", 2, 2, Pad::Keep),
    // ---- into Vec3
    row("Vec3", "Vec2", 2, 3, Pad::Zero),
    row("Vec3", "(Vec2, T)", 2, 3, Pad::Scalar),
    row("Vec3", "Vec4", 4, 3, Pad::Keep),
    row("Vec3", "Extent3", 3, 3, Pad::Keep),
    row("Vec3", "Rgb", 3, 3, Pad::Keep),
    row("Vec3", "Uvw", 3, 3, Pad::Keep),
    // ---- into Vec4
    row("Vec4", "Vec2", 2, 4, Pad::Zero),
    row("Vec4", "Vec3", 3, 4, Pad::Zero),
    row("Vec4", "(Vec3, T)", 3, 4, Pad::Scalar),
    row("Vec4", "Rgba", 4, 4, Pad::Keep),
    // ---- extents
    row("Extent2", "Vec2", 2, 2, Pad::Keep),
    row("Extent3", "Vec3", 3, 3, Pad::Keep),
    row("Extent3", "(Extent2, T)", 2, 3, Pad::Scalar),
    // ---- colours
    row("Rgb", "Vec3", 3, 3, Pad::Keep),
    row("Rgb", "Rgba", 4, 3, Pad::Keep),
    row("Rgba", "Vec4", 4, 4, Pad::Keep),
    row("Rgba", "Rgb", 3, 4, Pad::FullAlpha),
    row("Rgba", "(Rgb, T)", 3, 4, Pad::Scalar),
    // ---- texture coordinates (note: there is no `From<Uv> for Vec2`, only Vec2 -> Uv)
    row("Uv", "Vec2", 2, 2, Pad::Keep),
    row("Uvw", "Vec3", 3, 3, Pad::Keep),
    row("Uvw", "(Uv, T)", 2, 3, Pad::Scalar),
];
/// directions one might expect but which do not exist (recorded as evidence; nothing to run)
const ABSENT: &[&str] = &["From<Uv> for Vec2", "From<Uvw> for Uv", "From<Uv> for Uvw (only the tuple form)", "From<Extent3> for Extent2", "From<Extent2> for Extent3 (only the tuple form)", "From<Rgba> for Vec3", "From<(Vec2, T)> for Vec4"];

fn route(r: &Row, src: &[Sym], scalar: Option<Sym>) -> Vec<Sym> {
    assert_eq!(src.len(), r.nsrc);
    let mut out: Vec<Sym> = src.iter().copied().take(r.ndst).collect();
    while out.len() < r.ndst {
        out.push(match r.pad { Pad::Zero => ZERO, Pad::Scalar => scalar.expect("scalar"), Pad::FullAlpha => FULL, Pad::Keep => panic!("table row {}<-{} grows without padding rule", r.dst, r.src) });
    }
    if r.pad == Pad::Scalar { assert_eq!(r.ndst, r.nsrc + 1); }
    out
}
fn check_route(s: &Section, used: &mut BTreeMap<String, u32>, site: &str, src: &[Sym], scalar: Option<Sym>, got: Option<Vec<Sym>>) {
    let r = FROM_TABLE.iter().find(|r| format!("From<{}> for {}", r.src, r.dst) == site).unwrap_or_else(|| panic!("conversion {} is not in FROM_TABLE", site));
    *used.entry(site.to_string()).or_insert(0) += 1;
    let want = route(r, src, scalar);
    let class = match (r.pad, r.nsrc.cmp(&r.ndst)) {
        (Pad::Keep, std::cmp::Ordering::Equal) => "same-size",
        (Pad::Keep, _) => "shrink-drops-trailing",
        (Pad::Zero, _) => "grow-appends-zero",
        (Pad::Scalar, _) => "grow-appends-scalar",
        (Pad::FullAlpha, _) => "grow-appends-full-alpha",
    };
    s.class(class);
    chk_sym(s, site, "wrong-routing", &|| json!({"src": jd(&src), "scalar": jd(&scalar)}), got, &want, true, 0);
    if s.wants_sample() && r.pad != Pad::Keep { s.sample(json!({"conversion": site, "src": jd(&src), "scalar": jd(&scalar), "must_be": jd(&want), "rule": class})); }
}

macro_rules! conv {
    ($s:expr, $used:expr, $Dst:ident ($($df:ident)+) <- ($Src:ident ($($sf:ident)+), T)) => {{
        let site = concat!("From<(", stringify!($Src), ", T)> for ", stringify!($Dst));
        let mut k = 1u16;
        let src = $Src::<Sym> { $($sf: { k += 1; Sym(k) }),+ };
        let syms: Vec<Sym> = vec![$(src.$sf),+];
        let sc = Sym(99);
        let got = $s.call(site, || json!({"src": jd(&syms), "scalar": jd(&sc)}), || { let d: $Dst<Sym> = <$Dst<Sym> as From<($Src<Sym>, Sym)>>::from((src, sc)); vec![$(d.$df),+] });
        check_route($s, $used, site, &syms, Some(sc), got);
    }};
    ($s:expr, $used:expr, $Dst:ident ($($df:ident)+) <- $Src:ident ($($sf:ident)+)) => {{
        let site = concat!("From<", stringify!($Src), "> for ", stringify!($Dst));
        let mut k = 1u16;
        let src = $Src::<Sym> { $($sf: { k += 1; Sym(k) }),+ };
        let syms: Vec<Sym> = vec![$(src.$sf),+];
        let got = $s.call(site, || json!({"src": jd(&syms)}), || { let d: $Dst<Sym> = <$Dst<Sym> as From<$Src<Sym>>>::from(src); vec![$(d.$df),+] });
        check_route($s, $used, site, &syms, None, got);
    }};
}
/// `From<T>` broadcast: every field is the scalar
macro_rules! bcast { ($s:expr, $V:ident ($($f:tt)+)) => {{
    let site = concat!("From<T> for ", stringify!($V));
    let v = Sym(7);
    let got = $s.call(site, || json!({"scalar": jd(&v)}), || { let d: $V<Sym> = <$V<Sym> as From<Sym>>::from(v); vec![$(d.$f),+] });
    let n = [$(stringify!($f)),+].len();
    $s.class("broadcast");
    chk_sym($s, site, "wrong-routing", &|| json!({"scalar": jd(&v)}), got, &vec![v; n], true, 0);
}}}

fn sec_conversions(s: &Section) {
    s.require_classes(&["same-size", "shrink-drops-trailing", "grow-appends-zero", "grow-appends-scalar", "grow-appends-full-alpha", "broadcast"]);
    let mut used: BTreeMap<String, u32> = BTreeMap::new();
    let u = &mut used;
    conv!(s, u, Vec2 (x y) <- Vec3 (x y z));
    conv!(s, u, Vec2 (x y) <- Vec4 (x y z w));
    conv!(s, u, Vec2 (x y) <- Extent2 (w h));
    conv!(s, u, Vec3 (x y z) <- Vec2 (x y));
    conv!(s, u, Vec3 (x y z) <- (Vec2 (x y), T));
    conv!(s, u, Vec3 (x y z) <- Vec4 (x y z w));
    conv!(s, u, Vec3 (x y z) <- Extent3 (w h d));
    conv!(s, u, Vec3 (x y z) <- Rgb (r g b));
    conv!(s, u, Vec3 (x y z) <- Uvw (u v w));
    conv!(s, u, Vec4 (x y z w) <- Vec2 (x y));
    conv!(s, u, Vec4 (x y z w) <- Vec3 (x y z));
    conv!(s, u, Vec4 (x y z w) <- (Vec3 (x y z), T));
    conv!(s, u, Vec4 (x y z w) <- Rgba (r g b a));
    conv!(s, u, Extent2 (w h) <- Vec2 (x y));
    conv!(s, u, Extent3 (w h d) <- Vec3 (x y z));
    conv!(s, u, Extent3 (w h d) <- (Extent2 (w h), T));
    conv!(s, u, Rgb (r g b) <- Vec3 (x y z));
    conv!(s, u, Rgb (r g b) <- Rgba (r g b a));
    conv!(s, u, Rgba (r g b a) <- Vec4 (x y z w));
    conv!(s, u, Rgba (r g b a) <- Rgb (r g b));
    conv!(s, u, Rgba (r g b a) <- (Rgb (r g b), T));
    conv!(s, u, Uv (u v) <- Vec2 (x y));
    conv!(s, u, Uvw (u v w) <- Vec3 (x y z));
    conv!(s, u, Uvw (u v w) <- (Uv (u v), T));
    for r in FROM_TABLE {
        let site = format!("From<{}> for {}", r.src, r.dst);
        if used.get(&site).copied().unwrap_or(0) != 1 { s.rep.machinery_error(format!("FROM_TABLE row '{}' exercised {} times (must be exactly once)", site, used.get(&site).copied().unwrap_or(0))); }
    }
    // broadcast for all 13 vector types
    bcast!(s, Vec2 (x y)); bcast!(s, Vec3 (x y z)); bcast!(s, Vec4 (x y z w));
    bcast!(s, Extent2 (w h)); bcast!(s, Extent3 (w h d)); bcast!(s, Rgb (r g b)); bcast!(s, Rgba (r g b a)); bcast!(s, Uv (u v)); bcast!(s, Uvw (u v w));
    bcast!(s, Vec8 (0 1 2 3 4 5 6 7));
    bcast!(s, Vec16 (0 1 2 3 4 5 6 7 8 9 10 11 12 13 14 15));
    bcast!(s, Vec32 (0 1 2 3 4 5 6 7 8 9 10 11 12 13 14 15 16 17 18 19 20 21 22 23 24 25 26 27 28 29 30 31));
    bcast!(s, Vec64 (0 1 2 3 4 5 6 7 8 9 10 11 12 13 14 15 16 17 18 19 20 21 22 23 24 25 26 27 28 29 30 31 32 33 34 35 36 37 38 39 40 41 42 43 44 45 46 47 48 49 50 51 52 53 54 55 56 57 58 59 60 61 62 63));
    s.meta("from_impl_table", json!(FROM_TABLE.iter().map(|r| json!({"impl": format!("From<{}> for {}", r.src, r.dst), "rule": format!("{:?}", r.pad), "sizes": [r.nsrc, r.ndst]})).collect::<Vec<_>>()));
    s.meta("absent_directions_not_run", json!(ABSENT));
}

// =================================================================================================
// 2. with_* setters and named swizzles; 3. homogeneous constructors; 4. unit vectors
// =================================================================================================
fn sec_swizzles(s: &Section) {
    s.require_classes(&["setter", "setter-grows", "permutation", "projection"]);
    let e = [Sym(2), Sym(3), Sym(4), Sym(5)];
    let n = Sym(9);
    let a2 = Vec2 { x: e[0], y: e[1] };
    let a3 = Vec3 { x: e[0], y: e[1], z: e[2] };
    let a4 = Vec4 { x: e[0], y: e[1], z: e[2], w: e[3] };
    let c4 = Rgba { r: e[0], g: e[1], b: e[2], a: e[3] };
    let case = |site: &str, class: &str, f: &dyn Fn() -> Vec<Sym>, want: Vec<Sym>| {
        s.class(class);
        let inp = || json!({"self": jd(&e), "new": jd(&n)});
        let got = s.call(site, inp, f);
        chk_sym(s, site, "wrong-routing", &inp, got, &want, true, 0);
        if class == "permutation" && s.wants_sample() { s.sample(json!({"call": site, "self": jd(&e), "must_be": jd(&want)})); }
    };
    // setters: exactly the named element is replaced
    case("Vec2::with_x", "setter", &|| dv2(&a2.with_x(n)).to_vec(), vec![n, e[1]]);
    case("Vec2::with_y", "setter", &|| dv2(&a2.with_y(n)).to_vec(), vec![e[0], n]);
    case("Vec2::with_z", "setter-grows", &|| dv3(&a2.with_z(n)).to_vec(), vec![e[0], e[1], n]);
    case("Vec2::with_w", "setter-grows", &|| dv4(&a2.with_w(n)).to_vec(), vec![e[0], e[1], ZERO, n]);
    case("Vec3::with_x", "setter", &|| dv3(&a3.with_x(n)).to_vec(), vec![n, e[1], e[2]]);
    case("Vec3::with_y", "setter", &|| dv3(&a3.with_y(n)).to_vec(), vec![e[0], n, e[2]]);
    case("Vec3::with_z", "setter", &|| dv3(&a3.with_z(n)).to_vec(), vec![e[0], e[1], n]);
    case("Vec3::with_w", "setter-grows", &|| dv4(&a3.with_w(n)).to_vec(), vec![e[0], e[1], e[2], n]);
    case("Vec4::with_x", "setter", &|| dv4(&a4.with_x(n)).to_vec(), vec![n, e[1], e[2], e[3]]);
    case("Vec4::with_y", "setter", &|| dv4(&a4.with_y(n)).to_vec(), vec![e[0], n, e[2], e[3]]);
    case("Vec4::with_z", "setter", &|| dv4(&a4.with_z(n)).to_vec(), vec![e[0], e[1], n, e[3]]);
    case("Vec4::with_w", "setter", &|| dv4(&a4.with_w(n)).to_vec(), vec![e[0], e[1], e[2], n]);
    // swizzles: the name spells the source element of each result position
    case("Vec2::yx", "permutation", &|| dv2(&a2.yx()).to_vec(), vec![e[1], e[0]]);
    case("Vec3::zyx", "permutation", &|| dv3(&a3.zyx()).to_vec(), vec![e[2], e[1], e[0]]);
    case("Vec4::wxyz", "permutation", &|| dv4(&a4.wxyz()).to_vec(), vec![e[3], e[0], e[1], e[2]]);
    case("Vec4::wzyx", "permutation", &|| dv4(&a4.wzyx()).to_vec(), vec![e[3], e[2], e[1], e[0]]);
    case("Vec4::zyxw", "permutation", &|| dv4(&a4.zyxw()).to_vec(), vec![e[2], e[1], e[0], e[3]]);
    case("Vec3::xy", "projection", &|| dv2(&a3.xy()).to_vec(), vec![e[0], e[1]]);
    case("Vec4::xy", "projection", &|| dv2(&a4.xy()).to_vec(), vec![e[0], e[1]]);
    case("Vec4::xyz", "projection", &|| dv3(&a4.xyz()).to_vec(), vec![e[0], e[1], e[2]]);
    case("Rgba::rgb", "projection", &|| { let c = c4.rgb(); vec![c.r, c.g, c.b] }, vec![e[0], e[1], e[2]]);
}

fn sec_homogeneous(s: &Section) {
    s.require_classes(&["point", "direction"]);
    let e = [Sym(2), Sym(3), Sym(4), Sym(5)];
    let a2 = Vec2 { x: e[0], y: e[1] };
    let a3 = Vec3 { x: e[0], y: e[1], z: e[2] };
    let a4 = Vec4 { x: e[0], y: e[1], z: e[2], w: e[3] };
    let case = |site: &str, class: &str, f: &dyn Fn() -> Vec<Sym>, want: Vec<Sym>| {
        s.class(class);
        let inp = || json!({"elements": jd(&e)});
        let got = s.call(site, inp, f);
        chk_sym(s, site, "wrong-routing", &inp, got, &want, true, 0);
        if s.wants_sample() { s.sample(json!({"call": site, "elements": jd(&e), "must_be": jd(&want)})); }
    };
    // 4D: w = One for points, Zero for directions
    case("Vec4::new_point", "point", &|| dv4(&Vec4::new_point(e[0], e[1], e[2])).to_vec(), vec![e[0], e[1], e[2], ONE]);
    case("Vec4::new_direction", "direction", &|| dv4(&Vec4::new_direction(e[0], e[1], e[2])).to_vec(), vec![e[0], e[1], e[2], ZERO]);
    case("Vec4::from_point(Vec3)", "point", &|| dv4(&Vec4::from_point(a3)).to_vec(), vec![e[0], e[1], e[2], ONE]);
    case("Vec4::from_direction(Vec3)", "direction", &|| dv4(&Vec4::from_direction(a3)).to_vec(), vec![e[0], e[1], e[2], ZERO]);
    // through Into<Vec3>: a Vec4 drops its w first, a Vec2 gets z = Zero first
    case("Vec4::from_point(Vec4)", "point", &|| dv4(&Vec4::from_point(a4)).to_vec(), vec![e[0], e[1], e[2], ONE]);
    case("Vec4::from_direction(Vec4)", "direction", &|| dv4(&Vec4::from_direction(a4)).to_vec(), vec![e[0], e[1], e[2], ZERO]);
    case("Vec4::from_point(Vec2)", "point", &|| dv4(&Vec4::from_point(a2)).to_vec(), vec![e[0], e[1], ZERO, ONE]);
    case("Vec4::from_direction(Vec2)", "direction", &|| dv4(&Vec4::from_direction(a2)).to_vec(), vec![e[0], e[1], ZERO, ZERO]);
    // 3D (2D homogeneous): z = One for points, Zero for directions
    case("Vec3::new_point_2d", "point", &|| dv3(&Vec3::new_point_2d(e[0], e[1])).to_vec(), vec![e[0], e[1], ONE]);
    case("Vec3::new_direction_2d", "direction", &|| dv3(&Vec3::new_direction_2d(e[0], e[1])).to_vec(), vec![e[0], e[1], ZERO]);
    case("Vec3::from_point_2d(Vec2)", "point", &|| dv3(&Vec3::from_point_2d(a2)).to_vec(), vec![e[0], e[1], ONE]);
    case("Vec3::from_direction_2d(Vec2)", "direction", &|| dv3(&Vec3::from_direction_2d(a2)).to_vec(), vec![e[0], e[1], ZERO]);
    case("Vec3::from_point_2d(Vec3)", "point", &|| dv3(&Vec3::from_point_2d(a3)).to_vec(), vec![e[0], e[1], ONE]);
    case("Vec3::from_direction_2d(Vec3)", "direction", &|| dv3(&Vec3::from_direction_2d(a3)).to_vec(), vec![e[0], e[1], ZERO]);
    case("Vec3::from_point_2d(Vec4)", "point", &|| dv3(&Vec3::from_point_2d(a4)).to_vec(), vec![e[0], e[1], ONE]);
    case("Vec3::from_direction_2d(Vec4)", "direction", &|| dv3(&Vec3::from_direction_2d(a4)).to_vec(), vec![e[0], e[1], ZERO]);
}

fn sec_units(s: &Section) {
    s.require_classes(&["unit", "negative-unit", "unit-point", "negative-unit-point"]);
    let case = |site: &str, f: &dyn Fn() -> Vec<X>, want: &[i128]| {
        let want: Vec<X> = want.iter().map(|&v| qi(v)).collect();
        let neg = want.iter().any(|&v| v == qi(-1));
        s.class(match (site.contains("point"), neg) { (false, false) => "unit", (false, true) => "negative-unit", (true, false) => "unit-point", (true, true) => "negative-unit-point" });
        let inp = || json!({});
        let got = s.call(site, inp, f);
        chk(s, site, "wrong-coordinates", &inp, got, &want, true, 0);
        if neg && s.wants_sample() { s.sample(json!({"call": site, "must_be": jxs(&want)})); }
    };
    type V2 = Vec2<X>; type V3 = Vec3<X>; type V4 = Vec4<X>;
    case("Vec2::unit_x", &|| dv2(&V2::unit_x()).to_vec(), &[1, 0]);
    case("Vec2::unit_y", &|| dv2(&V2::unit_y()).to_vec(), &[0, 1]);
    case("Vec2::left", &|| dv2(&V2::left()).to_vec(), &[-1, 0]);
    case("Vec2::right", &|| dv2(&V2::right()).to_vec(), &[1, 0]);
    case("Vec2::up", &|| dv2(&V2::up()).to_vec(), &[0, 1]);
    case("Vec2::down", &|| dv2(&V2::down()).to_vec(), &[0, -1]);
    case("Vec3::unit_x", &|| dv3(&V3::unit_x()).to_vec(), &[1, 0, 0]);
    case("Vec3::unit_y", &|| dv3(&V3::unit_y()).to_vec(), &[0, 1, 0]);
    case("Vec3::unit_z", &|| dv3(&V3::unit_z()).to_vec(), &[0, 0, 1]);
    case("Vec3::left", &|| dv3(&V3::left()).to_vec(), &[-1, 0, 0]);
    case("Vec3::right", &|| dv3(&V3::right()).to_vec(), &[1, 0, 0]);
    case("Vec3::up", &|| dv3(&V3::up()).to_vec(), &[0, 1, 0]);
    case("Vec3::down", &|| dv3(&V3::down()).to_vec(), &[0, -1, 0]);
    case("Vec3::forward_lh", &|| dv3(&V3::forward_lh()).to_vec(), &[0, 0, 1]);
    case("Vec3::forward_rh", &|| dv3(&V3::forward_rh()).to_vec(), &[0, 0, -1]);
    case("Vec3::back_lh", &|| dv3(&V3::back_lh()).to_vec(), &[0, 0, -1]);
    case("Vec3::back_rh", &|| dv3(&V3::back_rh()).to_vec(), &[0, 0, 1]);
    case("Vec4::unit_x", &|| dv4(&V4::unit_x()).to_vec(), &[1, 0, 0, 0]);
    case("Vec4::unit_y", &|| dv4(&V4::unit_y()).to_vec(), &[0, 1, 0, 0]);
    case("Vec4::unit_z", &|| dv4(&V4::unit_z()).to_vec(), &[0, 0, 1, 0]);
    case("Vec4::unit_w", &|| dv4(&V4::unit_w()).to_vec(), &[0, 0, 0, 1]);
    case("Vec4::left", &|| dv4(&V4::left()).to_vec(), &[-1, 0, 0, 0]);
    case("Vec4::right", &|| dv4(&V4::right()).to_vec(), &[1, 0, 0, 0]);
    case("Vec4::up", &|| dv4(&V4::up()).to_vec(), &[0, 1, 0, 0]);
    case("Vec4::down", &|| dv4(&V4::down()).to_vec(), &[0, -1, 0, 0]);
    case("Vec4::forward_lh", &|| dv4(&V4::forward_lh()).to_vec(), &[0, 0, 1, 0]);
    case("Vec4::forward_rh", &|| dv4(&V4::forward_rh()).to_vec(), &[0, 0, -1, 0]);
    case("Vec4::back_lh", &|| dv4(&V4::back_lh()).to_vec(), &[0, 0, -1, 0]);
    case("Vec4::back_rh", &|| dv4(&V4::back_rh()).to_vec(), &[0, 0, 1, 0]);
    case("Vec4::unit_x_point", &|| dv4(&V4::unit_x_point()).to_vec(), &[1, 0, 0, 1]);
    case("Vec4::unit_y_point", &|| dv4(&V4::unit_y_point()).to_vec(), &[0, 1, 0, 1]);
    case("Vec4::unit_z_point", &|| dv4(&V4::unit_z_point()).to_vec(), &[0, 0, 1, 1]);
    case("Vec4::left_point", &|| dv4(&V4::left_point()).to_vec(), &[-1, 0, 0, 1]);
    case("Vec4::right_point", &|| dv4(&V4::right_point()).to_vec(), &[1, 0, 0, 1]);
    case("Vec4::up_point", &|| dv4(&V4::up_point()).to_vec(), &[0, 1, 0, 1]);
    case("Vec4::down_point", &|| dv4(&V4::down_point()).to_vec(), &[0, -1, 0, 1]);
    case("Vec4::forward_point_lh", &|| dv4(&V4::forward_point_lh()).to_vec(), &[0, 0, 1, 1]);
    case("Vec4::forward_point_rh", &|| dv4(&V4::forward_point_rh()).to_vec(), &[0, 0, -1, 1]);
    case("Vec4::back_point_lh", &|| dv4(&V4::back_point_lh()).to_vec(), &[0, 0, -1, 1]);
    case("Vec4::back_point_rh", &|| dv4(&V4::back_point_rh()).to_vec(), &[0, 0, 1, 1]);
}

// =================================================================================================
// 5. matrix size conversions (Sym) and the commutation law (exact X on a simplex lattice)
// =================================================================================================
macro_rules! matconv { ($s:expr, $lay:ident, $ls:expr, $Dst:ident $nd:literal <- $Src:ident $ns:literal) => {{
    let s: &Section = $s;
    let mut a = [[ZERO; $ns]; $ns];
    for i in 0..$ns { for j in 0..$ns { a[i][j] = Sym((10 * (i + 1) + j + 1) as u16); } }
    let site = format!("From<{}> for {} ({}-major)", stringify!($Src), stringify!($Dst), $ls);
    let src = <$lay::$Src<Sym> as MatIO<Sym, $ns>>::build(&a);
    let inp = || json!({"src": jd(&a)});
    let got = s.call(&site, inp, || { let d: $lay::$Dst<Sym> = <$lay::$Dst<Sym> as From<$lay::$Src<Sym>>>::from(src); <$lay::$Dst<Sym> as MatIO<Sym, $nd>>::decode(&d) });
    // reference: upper-left block of the source, identity elsewhere
    let mut want = [[ZERO; $nd]; $nd];
    for i in 0..$nd { for j in 0..$nd { want[i][j] = if i < $ns && j < $ns { a[i][j] } else if i == j { ONE } else { ZERO }; } }
    s.class(if $nd > $ns { "grow-pads-identity" } else { "shrink-upper-left-block" });
    chk_sym(s, &site, "wrong-routing", &inp, got, &want, true, 0);
    if $nd > $ns && s.wants_sample() { s.sample(json!({"conversion": site, "src": jd(&a), "must_be": jd(&want)})); }
}}}
fn sec_matconv(s: &Section) {
    s.require_classes(&["grow-pads-identity", "shrink-upper-left-block"]);
    matconv!(s, rm, "row", Mat4 4 <- Mat3 3); matconv!(s, cm, "col", Mat4 4 <- Mat3 3);
    matconv!(s, rm, "row", Mat4 4 <- Mat2 2); matconv!(s, cm, "col", Mat4 4 <- Mat2 2);
    matconv!(s, rm, "row", Mat3 3 <- Mat2 2); matconv!(s, cm, "col", Mat3 3 <- Mat2 2);
    matconv!(s, rm, "row", Mat3 3 <- Mat4 4); matconv!(s, cm, "col", Mat3 3 <- Mat4 4);
    matconv!(s, rm, "row", Mat2 2 <- Mat3 3); matconv!(s, cm, "col", Mat2 2 <- Mat3 3);
    matconv!(s, rm, "row", Mat2 2 <- Mat4 4); matconv!(s, cm, "col", Mat2 2 <- Mat4 4);
}

/// all `n`-tuples over `alph`, parallel over the first `split` coordinates (the library's `par_tuples` splits on one)
fn par_tuples_deep(alph: &[i64], n: usize, split: usize, f: &(impl Fn(&[i64]) + Sync)) {
    use rayon::prelude::*;
    let mut prefixes: Vec<Vec<i64>> = Vec::new();
    tuples(alph, split, |p| prefixes.push(p.to_vec()));
    prefixes.par_iter().for_each(|p| {
        let mut cur = vec![0i64; n];
        cur[..split].copy_from_slice(p);
        tuples(alph, n - split, |rest| { cur[split..].copy_from_slice(rest); f(&cur); });
    });
}
fn arrx<const N: usize>(a: &[i64]) -> A<X, N> { let mut m = [[qi(0); N]; N]; for i in 0..N { for j in 0..N { m[i][j] = qi(a[i * N + j] as i128); } } m }
fn vecx<const N: usize>(a: &[i64]) -> [X; N] { let mut v = [qi(0); N]; for i in 0..N { v[i] = qi(a[i] as i128); } v }

/// The real-code side of the commutation law for element type `$E`: returns triples (form id, embedded-then-
/// multiplied, multiplied-then-embedded) as decoded arrays: 0/1 zero-pad M*v, v*M; 2/3 point M*p, p*M; 4/5 (if a
/// tuple conversion exists for this size pair) scalar-pad M*(v,w), (v,w)*M; 6/7 direction M*d, d*M.
macro_rules! commute_forms { ($E:ty, $lay:ident, $n:literal, $k:literal, $MatN:ident, $MatK:ident, $VecN:ident, $VecK:ident, $point:expr, $dir:expr, $scalar:expr, $m:expr, $v:expr, $w:expr) => {{
    let mn = <$lay::$MatN<$E> as MatIO<$E, $n>>::build($m);
    let vn = <$VecN<$E> as VecIO<$E, $n>>::build($v);
    let big: $lay::$MatK<$E> = <$lay::$MatK<$E> as From<$lay::$MatN<$E>>>::from(mn);
    let dec = |v: $VecK<$E>| -> [$E; $k] { <$VecK<$E> as VecIO<$E, $k>>::decode(&v) };
    let point: fn($VecN<$E>) -> $VecK<$E> = $point;
    let dir: fn($VecN<$E>) -> $VecK<$E> = $dir;
    let scalar: Option<fn($VecN<$E>, $E) -> $VecK<$E>> = $scalar;
    let mut out: Vec<(usize, [$E; $k], [$E; $k])> = Vec::new();
    out.push((0, dec(big * <$VecK<$E> as From<$VecN<$E>>>::from(vn)), dec(<$VecK<$E> as From<$VecN<$E>>>::from(mn * vn))));
    out.push((1, dec(<$VecK<$E> as From<$VecN<$E>>>::from(vn) * big), dec(<$VecK<$E> as From<$VecN<$E>>>::from(vn * mn))));
    out.push((2, dec(big * point(vn)), dec(point(mn * vn))));
    out.push((3, dec(point(vn) * big), dec(point(vn * mn))));
    if let Some(sc) = scalar {
        out.push((4, dec(big * sc(vn, $w)), dec(sc(mn * vn, $w))));
        out.push((5, dec(sc(vn, $w) * big), dec(sc(vn * mn, $w))));
    }
    out.push((6, dec(big * dir(vn)), dec(dir(mn * vn))));
    out.push((7, dec(dir(vn) * big), dec(dir(vn * mn))));
    out
}}}
const FORM_NAMES: [&str; 8] = ["M*From(v)", "From(v)*M", "M*point(v)", "point(v)*M", "M*From((v,w))", "From((v,w))*M", "M*direction(v)", "direction(v)*M"];

macro_rules! commute { ($s:expr, $d:expr, $lay:ident, $ls:expr, $n:literal, $k:literal, $MatN:ident, $MatK:ident, $VecN:ident, $VecK:ident, $pname:expr, $point:expr, $dname:expr, $dir:expr, $scalar:expr, $has_scalar:expr) => {{
    let s: &Section = $s;
    let d: u32 = $d;
    let cfg = format!("{}->{} {}-major", stringify!($MatN), stringify!($MatK), $ls);
    // premise: branch-free, total degree <= 2 (measured on the code on disk)
    let measured = match catch(|| { let m = [[Deg::VAR; $n]; $n]; let v = [Deg::VAR; $n];
            commute_forms!(Deg, $lay, $n, $k, $MatN, $MatK, $VecN, $VecK, $point, $dir, $scalar, &m, &v, Deg::VAR) }) {
        Ok(fs) => fs.iter().flat_map(|(_, a, b)| a.iter().chain(b.iter())).map(|x| { if x.d != 0 { s.degrade("division present"); } x.n + x.d }).max().unwrap_or(0),
        Err(e) => { s.degrade(&format!("{}: degree run failed: {:?}", cfg, e)); 99 }
    };
    if measured > d { s.degrade(&format!("{}: measured degree {} exceeds lattice order {}", cfg, measured, d)); }
    s.meta(&format!("measured_degree {}", cfg), json!(measured));
    let nn = $n * $n;
    let nv = nn + $n + if $has_scalar { 1 } else { 0 };
    let body = |a: &[i64]| {
        let m: A<X, $n> = arrx::<$n>(&a[..nn]);
        let v: [X; $n] = vecx::<$n>(&a[nn..nn + $n]);
        let w: X = if $has_scalar { qi(a[nn + $n] as i128) } else { qi(0) };
        let nz = a[..nn].iter().any(|&t| t != 0) && a[nn..nn + $n].iter().any(|&t| t != 0);
        let wt: u64 = a.iter().map(|t| t.unsigned_abs()).sum::<u64>();
        let inp = || json!({"M": jmat(&m), "v": jxs(&v), "w": jx(w)});
        // reference over plain arrays
        let (mv, vm) = (mvec(&m, &v), vmat(&v, &m));
        let pad = |b: &[X; $n], last: X| -> [X; $k] { let mut o = [qi(0); $k]; o[..$n].copy_from_slice(b); o[$k - 1] = last; o };
        let wants: [[X; $k]; 8] = [pad(&mv, qi(0)), pad(&vm, qi(0)), pad(&mv, qi(1)), pad(&vm, qi(1)), pad(&mv, w), pad(&vm, w), pad(&mv, qi(0)), pad(&vm, qi(0))];
        let got = s.call(&format!("commutation {}", cfg), inp, || commute_forms!(X, $lay, $n, $k, $MatN, $MatK, $VecN, $VecK, $point, $dir, $scalar, &m, &v, w));
        if let Some(fs) = got {
            for (i, lhs, rhs) in fs.iter() {
                let i = *i;
                s.eval(nz);
                let form = FORM_NAMES[i].replace("point", $pname).replace("direction", $dname);
                let site = format!("{} {}", cfg, form);
                if lhs != rhs { s.violation_w(&site, "embedding-does-not-commute", json!({"input": inp(), "embed_then_multiply": jxs(lhs), "multiply_then_embed": jxs(rhs)}), wt); }
                if lhs != &wants[i] { s.violation_w(&site, "wrong-value", json!({"input": inp(), "got": jxs(lhs), "want": jxs(&wants[i])}), wt); }
            }
            s.class(if !$has_scalar { "no-tuple-conversion-for-this-size-pair" } else if w == qi(0) { "w=0" } else if w == qi(1) { "w=1" } else { "w-other" });
            if a.iter().any(|&t| t < 0) { s.class("signed-cube-point"); }
            if nz && wt == d as u64 && mv.iter().all(|x| *x != qi(0)) && s.wants_sample() { s.sample(json!({"config": cfg, "M": jmat(&m), "v": jxs(&v), "w": jx(w), "M*point(v) must be": jxs(&wants[2]), "forms_checked": fs.len()})); }
        }
    };
    par_lattice(nv, d, &body);
    s.meta(&format!("lattice {}", cfg), json!({"variables": nv, "order": d, "points": lattice_count(nv, d).to_string()}));
    // beyond the lattice (which already decides the degree-2 identity): a full cube of signed entries, so that the
    // verdict on negative / mixed-sign matrices, vectors and scalars does not rest on the degree premise alone
    let signed: &[i64] = if s.thorough() { &[-3, -1, 2] } else { &[-2, 1] };
    par_tuples_deep(signed, nv, 5.min(nv - 1), &body);
    s.meta(&format!("signed cube {}", cfg), json!({"alphabet": signed, "variables": nv, "points": (signed.len() as u128).pow(nv as u32).to_string()}));
}}}
fn sec_commute(s: &Section, d: u32) {
    s.require_classes(&["w=0", "w=1", "w-other", "signed-cube-point"]);
    commute!(s, d, rm, "row", 2, 3, Mat2, Mat3, Vec2, Vec3, "from_point_2d", |v| Vec3::from_point_2d(v), "from_direction_2d", |v| Vec3::from_direction_2d(v), Some(|v, w| Vec3::from((v, w))), true);
    commute!(s, d, cm, "col", 2, 3, Mat2, Mat3, Vec2, Vec3, "from_point_2d", |v| Vec3::from_point_2d(v), "from_direction_2d", |v| Vec3::from_direction_2d(v), Some(|v, w| Vec3::from((v, w))), true);
    commute!(s, d, rm, "row", 2, 4, Mat2, Mat4, Vec2, Vec4, "from_point", |v| Vec4::from_point(v), "from_direction", |v| Vec4::from_direction(v), None, false);
    commute!(s, d, cm, "col", 2, 4, Mat2, Mat4, Vec2, Vec4, "from_point", |v| Vec4::from_point(v), "from_direction", |v| Vec4::from_direction(v), None, false);
    commute!(s, d, rm, "row", 3, 4, Mat3, Mat4, Vec3, Vec4, "from_point", |v| Vec4::from_point(v), "from_direction", |v| Vec4::from_direction(v), Some(|v, w| Vec4::from((v, w))), true);
    commute!(s, d, cm, "col", 3, 4, Mat3, Mat4, Vec3, Vec4, "from_point", |v| Vec4::from_point(v), "from_direction", |v| Vec4::from_direction(v), Some(|v, w| Vec4::from((v, w))), true);
}

// =================================================================================================
// 6. ShuffleMask4 and the 4-lane shuffles (Vec4 and Rgba)
// =================================================================================================
const MAXU: usize = usize::MAX;
fn index_alphabet(thorough: bool) -> Vec<usize> {
    let mut v: Vec<usize> = (0..8).collect();
    v.extend([MAXU - 3, MAXU - 2, MAXU - 1, MAXU]);
    if thorough { v.extend(8..16); v.extend([MAXU - 7, MAXU - 6, MAXU - 5, MAXU - 4, 1usize << 63, (1usize << 63) + 1, (1usize << 63) + 2, (1usize << 63) + 3, (1usize << 32) + 1, (1usize << 8) + 2]); }
    v
}
fn sec_mask(s: &Section) {
    s.require_classes(&["in-range", "out-of-range", "contains-usize::MAX"]);
    let al = index_alphabet(s.thorough());
    // all index 4-tuples over the alphabet ({0..7}^4 is a subset)
    par_tuples(&al, 4, |t| {
        let (a, b, c, d) = (t[0], t[1], t[2], t[3]);
        let want = (a % 4, b % 4, c % 4, d % 4);
        let oor = t.iter().any(|&i| i >= 4);
        let inp = || json!({"indices": t.iter().map(|i| i.to_string()).collect::<Vec<_>>()});
        let wt = t.iter().map(|&i| if i > 16 { 100 } else { i as u64 }).sum::<u64>();
        if t.iter().any(|&i| i == MAXU) { s.class("contains-usize::MAX"); } else if oor { s.class("out-of-range"); } else { s.class("in-range"); }
        let m = s.call("ShuffleMask4::new", inp, || ShuffleMask4::new(a, b, c, d));
        let Some(m) = m else { s.eval(oor); return; };
        chk(s, "ShuffleMask4::to_indices", "indices-not-mod-4", &inp, s.call("ShuffleMask4::to_indices", inp, || m.to_indices()), &want, oor, wt);
        // masks that agree mod 4 are equal
        chk(s, "ShuffleMask4::eq", "masks-agreeing-mod-4-differ", &inp, s.call("ShuffleMask4::new", inp, || m == ShuffleMask4::new(want.0, want.1, want.2, want.3)), &true, oor, wt);
        chk(s, "From<(usize,usize,usize,usize)> for ShuffleMask4", "differs-from-new", &inp, s.call("From<tuple>", inp, || { let f: ShuffleMask4 = (a, b, c, d).into(); (f == m, f.to_indices()) }), &(true, want), oor, wt);
        chk(s, "From<[usize;4]> for ShuffleMask4", "differs-from-new", &inp, s.call("From<array>", inp, || { let f: ShuffleMask4 = [a, b, c, d].into(); (f == m, f.to_indices()) }), &(true, want), oor, wt);
        if oor && s.wants_sample() { s.sample(json!({"indices": t.iter().map(|i| i.to_string()).collect::<Vec<_>>(), "to_indices must be": jd(&want)})); }
    });
    // the 256 canonical masks are pairwise different
    let mut canon: Vec<((usize, usize, usize, usize), ShuffleMask4)> = Vec::new();
    for a in 0..4 { for b in 0..4 { for c in 0..4 { for d in 0..4 { canon.push(((a, b, c, d), ShuffleMask4::new(a, b, c, d))); } } } }
    for i in 0..canon.len() { for j in i + 1..canon.len() {
        s.eval(true);
        if canon[i].1 == canon[j].1 { s.violation("ShuffleMask4::eq", "distinct-index-tuples-give-equal-masks", json!({"a": jd(&canon[i].0), "b": jd(&canon[j].0)})); }
    } }
    // From<usize>: the same index for every lane
    for &i in &al {
        let inp = || json!({"index": i.to_string()});
        chk(s, "From<usize> for ShuffleMask4", "differs-from-new", &inp, s.call("From<usize>", inp, || { let f: ShuffleMask4 = i.into(); (f == ShuffleMask4::new(i, i, i, i), f.to_indices()) }), &(true, (i % 4, i % 4, i % 4, i % 4)), true, 0);
    }
    s.meta("index_alphabet", json!(al.iter().map(|i| i.to_string()).collect::<Vec<_>>()));
}

macro_rules! shuffle4 { ($s:expr, $V:ident ($x:ident $y:ident $z:ident $w:ident)) => {{
    let s: &Section = $s;
    let vn = stringify!($V);
    let l = [Sym(10), Sym(11), Sym(12), Sym(13)];
    let h = [Sym(20), Sym(21), Sym(22), Sym(23)];
    let lo = $V { $x: l[0], $y: l[1], $z: l[2], $w: l[3] };
    let hi = $V { $x: h[0], $y: h[1], $z: h[2], $w: h[3] };
    let dec = |v: $V<Sym>| [v.$x, v.$y, v.$z, v.$w];
    // all 256 masks built with ShuffleMask4::new
    for a in 0..4usize { for b in 0..4usize { for c in 0..4usize { for d in 0..4usize {
        let inp = || json!({"lo": jd(&l), "hi": jd(&h), "mask": [a, b, c, d]});
        let ident = (a, b, c, d) == (0, 1, 2, 3);
        let mut sorted = [a, b, c, d]; sorted.sort();
        s.class(if ident { "identity-mask" } else if a == b && b == c && c == d { "broadcast-mask" } else if sorted == [0, 1, 2, 3] { "permutation-mask" } else { "general-mask" });
        let wt = (a + b + c + d) as u64;
        let mask = ShuffleMask4::new(a, b, c, d);
        chk_sym(s, &format!("{}::shuffle_lo_hi", vn), "wrong-lanes", &inp, s.call(&format!("{}::shuffle_lo_hi", vn), inp, || dec($V::shuffle_lo_hi(lo, hi, mask))), &[l[a], l[b], h[c], h[d]], !ident, wt);
        chk_sym(s, &format!("{}::shuffled", vn), "wrong-lanes", &inp, s.call(&format!("{}::shuffled", vn), inp, || dec(lo.shuffled(mask))), &[l[a], l[b], l[c], l[d]], !ident, wt);
        if !ident && wt == 5 && s.wants_sample() { s.sample(json!({"type": vn, "lo": jd(&l), "hi": jd(&h), "mask": [a, b, c, d], "shuffle_lo_hi must be": jd(&[l[a], l[b], h[c], h[d]])})); }
    } } } }
    // masks given as tuples / arrays / a single index, including out-of-range indices (taken modulo 4)
    let al = index_alphabet(s.thorough());
    tuples(&al, 4, |t| {
        let (a, b, c, d) = (t[0], t[1], t[2], t[3]);
        if t.iter().all(|&i| i < 4) { return; }
        s.class("out-of-range-tuple");
        let inp = || json!({"lo": jd(&l), "hi": jd(&h), "mask": t.iter().map(|i| i.to_string()).collect::<Vec<_>>()});
        let wt = t.iter().map(|&i| if i > 16 { 100 } else { i as u64 }).sum::<u64>();
        chk_sym(s, &format!("{}::shuffle_lo_hi", vn), "wrong-lanes-out-of-range-index", &inp, s.call(&format!("{}::shuffle_lo_hi", vn), inp, || dec($V::shuffle_lo_hi(lo, hi, (a, b, c, d)))), &[l[a % 4], l[b % 4], h[c % 4], h[d % 4]], true, wt);
        chk_sym(s, &format!("{}::shuffled", vn), "wrong-lanes-out-of-range-index", &inp, s.call(&format!("{}::shuffled", vn), inp, || dec(lo.shuffled([a, b, c, d]))), &[l[a % 4], l[b % 4], l[c % 4], l[d % 4]], true, wt);
    });
    for &i in &al {
        s.class("single-index");
        let inp = || json!({"v": jd(&l), "mask": i.to_string()});
        chk_sym(s, &format!("{}::shuffled", vn), "wrong-lanes-single-index", &inp, s.call(&format!("{}::shuffled", vn), inp, || dec(lo.shuffled(i))), &[l[i % 4]; 4], true, 0);
    }
    // fixed helpers against the lane diagrams of their doc comments: a = (0,1,2,3), b = (4,5,6,7)
    let ab = [l[0], l[1], l[2], l[3], h[0], h[1], h[2], h[3]];
    let pick = |d: [usize; 4]| [ab[d[0]], ab[d[1]], ab[d[2]], ab[d[3]]];
    let fixed = |name: &str, diagram: [usize; 4], f: &dyn Fn() -> [Sym; 4]| {
        s.class("lane-diagram");
        let site = format!("{}::{}", vn, name);
        let inp = || json!({"a": jd(&l), "b": jd(&h), "doc_diagram": diagram});
        chk_sym(s, &site, "wrong-lanes", &inp, s.call(&site, inp, f), &pick(diagram), true, 0);
    };
    fixed("interleave_0011", [0, 4, 1, 5], &|| dec($V::interleave_0011(lo, hi)));
    fixed("interleave_2233", [2, 6, 3, 7], &|| dec($V::interleave_2233(lo, hi)));
    fixed("shuffle_lo_hi_0101", [0, 1, 4, 5], &|| dec($V::shuffle_lo_hi_0101(lo, hi)));
    fixed("shuffle_hi_lo_2323", [6, 7, 2, 3], &|| dec($V::shuffle_hi_lo_2323(lo, hi)));
    fixed("shuffled_0101", [0, 1, 0, 1], &|| dec(lo.shuffled_0101()));
    fixed("shuffled_2323", [2, 3, 2, 3], &|| dec(lo.shuffled_2323()));
    fixed("shuffled_0022", [0, 0, 2, 2], &|| dec(lo.shuffled_0022()));
    fixed("shuffled_1133", [1, 1, 3, 3], &|| dec(lo.shuffled_1133()));
}}}
fn sec_shuffles(s: &Section) {
    s.require_classes(&["identity-mask", "broadcast-mask", "permutation-mask", "general-mask", "out-of-range-tuple", "single-index", "lane-diagram"]);
    shuffle4!(s, Vec4 (x y z w));
    shuffle4!(s, Rgba (r g b a));
}

// =================================================================================================
// 7. colour helpers for every ColorComponent type
// =================================================================================================
/// What the check needs to know about a component type, written from std constants / exact arithmetic
/// (never from vek).
trait CC: ColorComponent + Copy + PartialEq + Debug + Sub<Output = Self> + 'static {
    const NAME: &'static str;
    fn full_ref() -> Self;
    fn zero_ref() -> Self;
    /// full - c, computed independently (i128 arithmetic truncated to the type / exact rationals)
    fn inv_ref(self) -> Self;
    /// c in [0, full]
    fn in_colour_range(self) -> bool;
    /// values swept through one channel position while the others stay fixed
    fn sweep(thorough: bool) -> Vec<Self>;
    /// boundary alphabet for full products
    fn alphabet(thorough: bool) -> Vec<Self>;
    /// fixed values of the other channels during a sweep (in colour range, pairwise distinct)
    fn fixed() -> [Self; 4];
    /// distance from zero, for ordering counterexamples
    fn weight(self) -> u64;
    /// negative values of plain signed integer types (outside the colour range; `average_rgb` is still defined on
    /// them whenever the sums are representable); empty for every other type
    fn negatives() -> Vec<Self> { Vec::new() }
    /// (second audit) integer types: 0..3, all powers of two and their neighbours, MAX - 2^k, MIN, -2^k ...; empty for floats
    fn special_values() -> Vec<Self> { Vec::new() }
    /// the special values on which `full - c` is defined (plain signed integers: the non-negative ones)
    fn special_values_invertible() -> Vec<Self> { Vec::new() }
}
/// types on which `average_rgb` can be called at all (`From<u8>` exists)
trait Avg: CC + Add<Output = Self> + Div<Output = Self> + From<u8> {
    /// r+g+b representable in the type (otherwise the call is outside the property)
    fn callable(r: Self, g: Self, b: Self) -> bool;
    /// None: `got` is (r+g+b)/3; Some(description of the wanted value) otherwise
    fn verdict(r: Self, g: Self, b: Self, got: Self) -> Option<String>;
}

macro_rules! int_alphabets { ($t:ty, $wrap_signed:expr) => {
    fn sweep(thorough: bool) -> Vec<Self> {
        let max = <$t>::MAX; let mid = max / 2;
        let lo: $t = if $wrap_signed { <$t>::MIN } else { 0 };
        let mut v: Vec<$t> = if std::mem::size_of::<$t>() == 1 || (thorough && std::mem::size_of::<$t>() == 2) { (lo..=max).collect() }
            else { let mut v = vec![0, 1, 2, mid, max - 1, max]; if $wrap_signed { v.extend([lo, lo + 1, (0 as $t).wrapping_sub(2), (0 as $t).wrapping_sub(1)]); }
                   if thorough { v.extend([3, 127, max / 3, max / 3 * 2, mid - 1, mid + 1, max - 2]); } v };
        v.sort(); v.dedup();
        v.into_iter().map(Self::mk).collect()
    }
    fn alphabet(thorough: bool) -> Vec<Self> {
        let max = <$t>::MAX; let mid = max / 2;
        let mut v: Vec<$t> = vec![0, 1, 2, mid, max - 1, max];
        if $wrap_signed { v.extend([<$t>::MIN, (0 as $t).wrapping_sub(1)]); }
        if thorough { v.extend([3, mid - 1, mid + 1, max - 2]); }
        v.sort(); v.dedup();
        v.into_iter().map(Self::mk).collect()
    }
    fn fixed() -> [Self; 4] { let m = <$t>::MAX; [Self::mk(m / 3), Self::mk(m / 5 * 2 + 1), Self::mk(7), Self::mk(m / 2 + 3)] }
    fn negatives() -> Vec<Self> {
        if <$t>::MIN == 0 { return Vec::new(); }
        let (z, min) = (0 as $t, <$t>::MIN);
        let mut v: Vec<$t> = vec![z.wrapping_sub(1), z.wrapping_sub(2), z.wrapping_sub(4), z.wrapping_sub(5), z.wrapping_sub(7), min / 3, min / 3 + 1, min / 2, min + 1, min];
        v.sort(); v.dedup();
        v.into_iter().map(Self::mk).collect()
    }
    fn special_values() -> Vec<Self> {
        let bits = 8 * std::mem::size_of::<$t>() as u32;
        let (min, max) = (<$t>::MIN as i128, <$t>::MAX as i128);
        let mut v: Vec<i128> = vec![0, 1, 2, 3, max, max - 1, max - 2, max / 2, max / 2 + 1, max / 2 - 1, max / 3, min, min + 1, min / 2, -1, -2, -3];
        for k in 1..bits { let p = 1i128 << k; v.extend([p - 1, p, p + 1, -p, -p - 1, -p + 1, max - p, max - p + 1]); }
        v.retain(|x| *x >= min && *x <= max); v.sort(); v.dedup();
        v.into_iter().map(|x| Self::mk(x as $t)).collect()
    }
    fn special_values_invertible() -> Vec<Self> {
        let all = Self::special_values();
        if $wrap_signed { all } else { all.into_iter().filter(|v| v.in_colour_range()).collect() }
    }
} }
trait Mk<R> { fn mk(r: R) -> Self; }
macro_rules! cc_int { ($($t:ident)+) => { $(
    impl Mk<$t> for $t { fn mk(r: $t) -> $t { r } }
    impl CC for $t {
        const NAME: &'static str = stringify!($t);
        fn full_ref() -> Self { <$t>::MAX }
        fn zero_ref() -> Self { 0 }
        fn inv_ref(self) -> Self { ((<$t>::MAX as i128) - (self as i128)) as $t }
        fn in_colour_range(self) -> bool { (self as i128) >= 0 }
        fn weight(self) -> u64 { (self as i128).unsigned_abs().min(u64::MAX as u128) as u64 }
        int_alphabets!($t, false);
    }
    impl Mk<$t> for Wrapping<$t> { fn mk(r: $t) -> Self { Wrapping(r) } }
    impl CC for Wrapping<$t> {
        const NAME: &'static str = concat!("Wrapping<", stringify!($t), ">");
        fn full_ref() -> Self { Wrapping(<$t>::MAX) }
        fn zero_ref() -> Self { Wrapping(0) }
        fn inv_ref(self) -> Self { Wrapping(((<$t>::MAX as i128) - (self.0 as i128)) as $t) } // `as` truncates = wraps
        fn in_colour_range(self) -> bool { (self.0 as i128) >= 0 }
        fn weight(self) -> u64 { (self.0 as i128).unsigned_abs().min(u64::MAX as u128) as u64 }
        int_alphabets!($t, <$t>::MIN != 0);
    }
)+ } }
cc_int!(u8 u16 u32 u64 i8 i16 i32 i64);
macro_rules! avg_int { ($($t:ident)+) => { $(
    impl Avg for $t {
        fn callable(r: Self, g: Self, b: Self) -> bool { let s = r as i128 + g as i128 + b as i128; let p = r as i128 + g as i128; s <= <$t>::MAX as i128 && s >= <$t>::MIN as i128 && p <= <$t>::MAX as i128 && p >= <$t>::MIN as i128 }
        fn verdict(r: Self, g: Self, b: Self, got: Self) -> Option<String> { let w = (r as i128 + g as i128 + b as i128) / 3; if got as i128 == w { None } else { Some(w.to_string()) } }
    }
)+ } }
avg_int!(u8 u16 u32 u64 i16 i32 i64); // i8: no From<u8>; Wrapping<_>: no From<u8>  =>  average_rgb cannot be called on them
macro_rules! cc_float { ($($t:ident)+) => { $(
    impl CC for $t {
        const NAME: &'static str = stringify!($t);
        fn full_ref() -> Self { 1.0 }
        fn zero_ref() -> Self { 0.0 }
        fn inv_ref(self) -> Self { let q = Q::from_f64(self as f64).expect("dyadic"); let r = Q::ONE.sub(q); let f = r.to_f64() as $t; assert!(Q::from_f64(f as f64) == Some(r), "1-c not representable"); f }
        fn in_colour_range(self) -> bool { self >= 0.0 && self <= 1.0 }
        fn weight(self) -> u64 { (self.abs() * 4096.0) as u64 }
        fn sweep(thorough: bool) -> Vec<Self> { let n = if thorough { 4096 } else { 256 }; (0..=n).map(|k| k as $t / n as $t).collect() }
        fn alphabet(thorough: bool) -> Vec<Self> { let mut v = vec![0.0, 1.0 / 256.0, 0.5, 255.0 / 256.0, 1.0]; if thorough { v.extend([0.25, 0.75, 3.0 / 256.0]); } v }
        fn fixed() -> [Self; 4] { [0.25, 0.625, 0.125, 0.75] }
    }
    impl Avg for $t {
        fn callable(_: Self, _: Self, _: Self) -> bool { true }
        /// the inputs are multiples of 2^-12 in [0,1]: r+g+b is exact, so the result must be the
        /// correctly rounded quotient: |got - s/3| <= ulp(got)/2 (exact rational test)
        fn verdict(r: Self, g: Self, b: Self, got: Self) -> Option<String> {
            let qf = |v: $t| Q::from_f64(v as f64).expect("finite");
            let want = qf(r).add(qf(g)).add(qf(b)).div(Q::int(3));
            if got == 0.0 { return if want == Q::ZERO { None } else { Some(format!("{:?}", want)) }; }
            let gq = match Q::from_f64(got as f64) { Some(q) => q, None => return Some(format!("{:?}", want)) };
            let ulp = qf(<$t>::from_bits(got.abs().to_bits() + 1)).sub(qf(got.abs()));
            if gq.sub(want).abs().mul(Q::int(2)).cmp(ulp) != std::cmp::Ordering::Greater { None } else { Some(format!("{:?} (correctly rounded)", want)) }
        }
    }
)+ } }
cc_float!(f32 f64);

fn drgb<T: Copy>(c: Rgb<T>) -> [T; 3] { [c.r, c.g, c.b] }
fn drgba<T: Copy>(c: Rgba<T>) -> [T; 4] { [c.r, c.g, c.b, c.a] }
fn distinct3<T: PartialEq>(a: &[T]) -> bool { a[0] != a[1] && a[1] != a[2] && a[0] != a[2] }

/// full(), new_opaque/new_transparent/from_opaque/from_transparent/from_translucent
fn colour_ctors<T: CC>(s: &Section) {
    let tn = T::NAME;
    s.class(&format!("type:{}", tn));
    let (full, zero) = (T::full_ref(), T::zero_ref());
    let no = || json!({});
    chk(s, &format!("ColorComponent::full<{}>", tn), "wrong-full", &no, s.call("full", no, || T::full()), &full, true, 0);
    let al = T::alphabet(s.thorough());
    for &r in &al { for &g in &al { for &b in &al {
        let nt = distinct3(&[r, g, b]);
        let wt = r.weight().saturating_add(g.weight()).saturating_add(b.weight());
        let inp = || json!({"r": jd(&r), "g": jd(&g), "b": jd(&b)});
        let c3 = Rgb { r, g, b };
        let site = |f: &str| format!("Rgba<{}>::{}", tn, f);
        chk(s, &site("new_opaque"), "wrong-value", &inp, s.call(&site("new_opaque"), inp, || drgba(Rgba::new_opaque(r, g, b))), &[r, g, b, full], nt, wt);
        chk(s, &site("new_transparent"), "wrong-value", &inp, s.call(&site("new_transparent"), inp, || drgba(Rgba::new_transparent(r, g, b))), &[r, g, b, zero], nt, wt);
        chk(s, &site("from_opaque"), "wrong-value", &inp, s.call(&site("from_opaque"), inp, || drgba(Rgba::from_opaque(c3))), &[r, g, b, full], nt, wt);
        chk(s, &site("from_transparent"), "wrong-value", &inp, s.call(&site("from_transparent"), inp, || drgba(Rgba::from_transparent(c3))), &[r, g, b, zero], nt, wt);
        chk(s, &format!("From<Rgb> for Rgba <{}>", tn), "wrong-value", &inp, s.call("From<Rgb> for Rgba", inp, || drgba(Rgba::from(c3))), &[r, g, b, full], nt, wt);
        for &a in &al {
            let inp = || json!({"r": jd(&r), "g": jd(&g), "b": jd(&b), "opacity": jd(&a)});
            chk(s, &site("from_translucent"), "wrong-value", &inp, s.call(&site("from_translucent"), inp, || drgba(Rgba::from_translucent(c3, a))), &[r, g, b, a], nt, wt.saturating_add(a.weight()));
        }
        if nt && s.wants_sample() && tn == "i16" { s.sample(json!({"type": tn, "r": jd(&r), "g": jd(&g), "b": jd(&b), "new_opaque must be": jd(&[r, g, b, full]), "new_transparent must be": jd(&[r, g, b, zero])})); }
    } } }
}

/// the eight named colours (table of channel bits), gray/grey
fn colour_named<T: CC>(s: &Section) {
    let tn = T::NAME;
    s.class(&format!("type:{}", tn));
    let (full, zero) = (T::full_ref(), T::zero_ref());
    let ch = |bit: u8| if bit == 1 { full } else { zero };
    let no = || json!({});
    macro_rules! named { ($($name:ident $r:literal $g:literal $b:literal;)+) => { $(
        let want3 = [ch($r), ch($g), ch($b)];
        let site3 = format!("Rgb<{}>::{}", tn, stringify!($name));
        chk(s, &site3, "wrong-colour", &no, s.call(&site3, no, || drgb(Rgb::<T>::$name())), &want3, true, 0);
        let site4 = format!("Rgba<{}>::{}", tn, stringify!($name));
        chk(s, &site4, "wrong-colour", &no, s.call(&site4, no, || drgba(Rgba::<T>::$name())), &[want3[0], want3[1], want3[2], full], true, 0);
    )+ } }
    named! { black 0 0 0; white 1 1 1; red 1 0 0; green 0 1 0; blue 0 0 1; cyan 0 1 1; magenta 1 0 1; yellow 1 1 0; }
    for v in T::sweep(s.thorough()) {
        let inp = || json!({"value": jd(&v)});
        let nt = v != full && v != zero;
        for (k, f3, f4) in [("gray", Rgb::<T>::gray as fn(T) -> Rgb<T>, Rgba::<T>::gray as fn(T) -> Rgba<T>), ("grey", Rgb::<T>::grey, Rgba::<T>::grey)] {
            chk(s, &format!("Rgb<{}>::{}", tn, k), "wrong-colour", &inp, s.call(k, inp, || drgb(f3(v))), &[v, v, v], nt, v.weight());
            chk(s, &format!("Rgba<{}>::{}", tn, k), "wrong-colour", &inp, s.call(k, inp, || drgba(f4(v))), &[v, v, v, full], nt, v.weight());
        }
    }
    if tn == "u16" { s.sample(json!({"type": tn, "Rgba::magenta must be": jd(&[full, zero, full, full]), "Rgb::cyan must be": jd(&[zero, full, full])})); }
}

/// inverted_rgb = full - c per channel, an involution, alpha preserved
fn colour_inverted<T: CC>(s: &Section) {
    let tn = T::NAME;
    s.class(&format!("type:{}", tn));
    let (site3, site4) = (format!("Rgb<{}>::inverted_rgb", tn), format!("Rgba<{}>::inverted_rgb", tn));
    let one = |c: [T; 4], nt: bool| {
        let wt = c.iter().fold(0u64, |a, v| a.saturating_add(v.weight()));
        if c.iter().all(|v| v.in_colour_range()) { s.class("in-colour-range"); } else { s.class("outside-colour-range (Wrapping types only)"); }
        // Rgba
        let inp = || json!({"r": jd(&c[0]), "g": jd(&c[1]), "b": jd(&c[2]), "a": jd(&c[3])});
        let want = [c[0].inv_ref(), c[1].inv_ref(), c[2].inv_ref(), c[3]];
        let got = s.call(&site4, inp, || { let i = Rgba { r: c[0], g: c[1], b: c[2], a: c[3] }.inverted_rgb(); (drgba(i), drgba(i.inverted_rgb())) });
        s.eval(nt);
        if let Some((g1, g2)) = got {
            if g1[3] != c[3] { s.violation_w(&site4, "alpha-not-preserved", json!({"input": inp(), "got": jd(&g1), "want": jd(&want)}), wt); }
            if g1[..3] != want[..3] { s.violation_w(&site4, "not-full-minus-channel", json!({"input": inp(), "got": jd(&g1), "want": jd(&want)}), wt); }
            if g2 != c { s.violation_w(&site4, "not-an-involution", json!({"input": inp(), "inverted_twice": jd(&g2)}), wt); }
        }
        // Rgb
        let inp = || json!({"r": jd(&c[0]), "g": jd(&c[1]), "b": jd(&c[2])});
        let got = s.call(&site3, inp, || { let i = Rgb { r: c[0], g: c[1], b: c[2] }.inverted_rgb(); (drgb(i), drgb(i.inverted_rgb())) });
        s.eval(nt);
        if let Some((g1, g2)) = got {
            if g1[..] != want[..3] { s.violation_w(&site3, "not-full-minus-channel", json!({"input": inp(), "got": jd(&g1), "want": jd(&want[..3].to_vec())}), wt); }
            if g2[..] != c[..3] { s.violation_w(&site3, "not-an-involution", json!({"input": inp(), "inverted_twice": jd(&g2)}), wt); }
        }
        if nt && tn == "u8" && s.wants_sample() && format!("{:?}", c[0]) == "200" { s.sample(json!({"type": tn, "rgba": jd(&c), "inverted_rgb must be": jd(&want)})); }
    };
    // every sweep value in each channel position (incl. alpha) against fixed other channels
    let fx = T::fixed();
    for pos in 0..4 { for v in T::sweep(s.thorough()) {
        let mut c = fx; c[pos] = v;
        s.class(["sweep-r", "sweep-g", "sweep-b", "sweep-alpha"][pos]);
        one(c, true);
    } }
    // full product of the boundary alphabet
    let al = T::alphabet(s.thorough());
    for &r in &al { for &g in &al { for &b in &al { for &a in &al {
        s.class("boundary-product");
        one([r, g, b, a], !(r == g && g == b));
    } } } }
}
/// average_rgb = (r+g+b)/3 where r+g+b is representable
fn colour_average<T: Avg>(s: &Section) {
    let tn = T::NAME;
    s.class(&format!("type:{}", tn));
    let mut vals: Vec<T> = T::alphabet(s.thorough()).into_iter().filter(|v| v.in_colour_range()).collect();
    // small values whose sum is not a multiple of 3, and the fixed channel values
    for v in T::sweep(false).into_iter().filter(|v| v.in_colour_range()).take(if s.thorough() { 40 } else { 12 }) { if !vals.contains(&v) { vals.push(v); } }
    for v in T::fixed() { if !vals.contains(&v) { vals.push(v); } }
    // plain signed integers: negative channels too ((r+g+b)/3 truncates towards zero, like i128 division)
    for v in T::negatives() { if !vals.contains(&v) { vals.push(v); } }
    let alphas = [T::zero_ref(), T::full_ref(), T::fixed()[3]];
    for &r in &vals { for &g in &vals { for &b in &vals {
        if !T::callable(r, g, b) { s.class("sum-not-representable (not called)"); continue; }
        s.class("sum-representable");
        if ![r, g, b].iter().all(|v| v.in_colour_range()) { s.class("negative-channel (plain signed ints)"); }
        let wt = r.weight().saturating_add(g.weight()).saturating_add(b.weight());
        let nt = !(r == g && g == b);
        let inp = || json!({"r": jd(&r), "g": jd(&g), "b": jd(&b)});
        let site3 = format!("Rgb<{}>::average_rgb", tn);
        s.eval(nt);
        if let Some(got) = s.call(&site3, inp, || Rgb { r, g, b }.average_rgb()) { if let Some(w) = T::verdict(r, g, b, got) { s.violation_w(&site3, "not-sum-over-3", json!({"input": inp(), "got": jd(&got), "want": w}), wt); } }
        let site4 = format!("Rgba<{}>::average_rgb", tn);
        for &a in &alphas {
            s.eval(nt);
            let inp = || json!({"r": jd(&r), "g": jd(&g), "b": jd(&b), "a": jd(&a)});
            if let Some(got) = s.call(&site4, inp, || Rgba { r, g, b, a }.average_rgb()) { if let Some(w) = T::verdict(r, g, b, got) { s.violation_w(&site4, "not-sum-over-3", json!({"input": inp(), "got": jd(&got), "want": w}), wt); } }
        }
        if nt && tn == "u8" && wt > 100 && s.wants_sample() { s.sample(json!({"type": tn, "r": jd(&r), "g": jd(&g), "b": jd(&b), "average_rgb": jd(&Rgb { r, g, b }.average_rgb())})); }
    } } }
}

fn sec_reorder(s: &Section) {
    let e = [Sym(2), Sym(3), Sym(4), Sym(5)];
    let c4 = Rgba { r: e[0], g: e[1], b: e[2], a: e[3] };
    let c3 = Rgb { r: e[0], g: e[1], b: e[2] };
    let inp = || json!({"r,g,b,a": jd(&e)});
    chk_sym(s, "Rgba::shuffled_argb", "wrong-routing", &inp, s.call("Rgba::shuffled_argb", inp, || drgba(c4.shuffled_argb()).to_vec()), &vec![e[3], e[0], e[1], e[2]], true, 0);
    chk_sym(s, "Rgba::shuffled_bgra", "wrong-routing", &inp, s.call("Rgba::shuffled_bgra", inp, || drgba(c4.shuffled_bgra()).to_vec()), &vec![e[2], e[1], e[0], e[3]], true, 0);
    chk_sym(s, "Rgb::shuffled_bgr", "wrong-routing", &inp, s.call("Rgb::shuffled_bgr", inp, || drgb(c3.shuffled_bgr()).to_vec()), &vec![e[2], e[1], e[0]], true, 0);
    s.sample(json!({"rgba": jd(&e), "shuffled_argb must be": jd(&[e[3], e[0], e[1], e[2]]), "shuffled_bgra must be": jd(&[e[2], e[1], e[0], e[3]])}));
}

macro_rules! for_all_cc { ($f:ident, $s:expr) => {{
    $f::<u8>($s); $f::<u16>($s); $f::<u32>($s); $f::<u64>($s); $f::<i8>($s); $f::<i16>($s); $f::<i32>($s); $f::<i64>($s);
    $f::<Wrapping<u8>>($s); $f::<Wrapping<u16>>($s); $f::<Wrapping<u32>>($s); $f::<Wrapping<u64>>($s);
    $f::<Wrapping<i8>>($s); $f::<Wrapping<i16>>($s); $f::<Wrapping<i32>>($s); $f::<Wrapping<i64>>($s);
    $f::<f32>($s); $f::<f64>($s);
}}}
const CC_TYPES: [&str; 18] = ["type:u8", "type:u16", "type:u32", "type:u64", "type:i8", "type:i16", "type:i32", "type:i64",
    "type:Wrapping<u8>", "type:Wrapping<u16>", "type:Wrapping<u32>", "type:Wrapping<u64>", "type:Wrapping<i8>", "type:Wrapping<i16>", "type:Wrapping<i32>", "type:Wrapping<i64>", "type:f32", "type:f64"];
const AVG_TYPES: [&str; 9] = ["type:u8", "type:u16", "type:u32", "type:u64", "type:i16", "type:i32", "type:i64", "type:f32", "type:f64"];


// =================================================================================================
// 8. (added by the audit) floats beyond the exactly representable colour range
// =================================================================================================
/// Float component types on *general* inputs: values whose complement / sum is not exact, values outside
/// [0,1] (HDR, negative), signed zero, subnormals, huge values, infinities, NaN.
trait FloatCC: CC + Add<Output = Self> + Div<Output = Self> + From<u8> + PartialOrd {
    /// unit roundoff 2^-p
    const U: f64;
    /// ordinary finite values: k/255 (8-bit colours mapped to floats), decimal fractions, HDR and negative values
    fn general(thorough: bool) -> Vec<Self>;
    /// finite edge values and non-finite values
    fn specials() -> Vec<Self>;
    /// values for the averaging cube: 24-bit significands within [2^-10, 2^11], so that r+g+b is exact in f64
    fn avg_values(thorough: bool) -> Vec<Self>;
    /// 1 - c as one IEEE-754 subtraction of the type (std arithmetic; correctly rounded by definition)
    fn one_minus(self) -> Self;
    /// same datum: bitwise equal, or both NaN
    fn same(self, o: Self) -> bool;
    fn to64(self) -> f64;
    fn is_nan_(self) -> bool;
}
macro_rules! float_cc { ($($t:ident $u:expr;)+) => { $(
    impl FloatCC for $t {
        const U: f64 = $u;
        fn general(thorough: bool) -> Vec<Self> {
            let mut v: Vec<$t> = (0..=255u32).map(|k| k as $t / 255.0).collect();
            v.extend([0.1, 0.2, 0.3, 0.7, 0.9, 1.0 / 3.0, 2.0 / 3.0, 1.5, 2.75, 1.0e3, 1.0e-3, -0.25, -0.1, -1.0, -1.0e3, 3.0e-5, 16777217.0]);
            if thorough { v.extend((1..1000u32).map(|k| k as $t / 1000.0)); v.extend((0..=1023u32).map(|k| k as $t / 1023.0)); v.extend((1..200u32).map(|k| 1.0 + k as $t / 7.0)); v.extend((1..200u32).map(|k| -(k as $t) / 11.0)); }
            v
        }
        fn specials() -> Vec<Self> {
            vec![-0.0, <$t>::MIN_POSITIVE, <$t>::from_bits(1), -<$t>::from_bits(1), <$t>::EPSILON, <$t>::EPSILON / 2.0, 1.0 - <$t>::EPSILON / 2.0, 1.0 + <$t>::EPSILON, 2.0 - <$t>::EPSILON,
                 <$t>::MAX, <$t>::MIN, <$t>::INFINITY, <$t>::NEG_INFINITY, <$t>::NAN]
        }
        fn avg_values(thorough: bool) -> Vec<Self> {
            let step = if thorough { 2 } else { 5 };
            let mut v: Vec<$t> = (0..=255u32).step_by(step).map(|k| (k as f32 / 255.0) as $t).collect();
            v.extend([0.1f32, 0.2, 0.3, 1.0 / 3.0, 0.7, 1.5, 2.75, 1000.0, -0.25, -0.1, -1.0, -1000.0, 0.001].iter().map(|&x| x as $t));
            v
        }
        fn one_minus(self) -> Self { 1.0 - self }
        fn same(self, o: Self) -> bool { self.to_bits() == o.to_bits() || (self.is_nan() && o.is_nan()) }
        fn to64(self) -> f64 { self as f64 }
        fn is_nan_(self) -> bool { self.is_nan() }
    }
)+ } }
float_cc! { f32 5.9604644775390625e-8; f64 1.1102230246251565e-16; }

/// inverted_rgb on general floats: every channel is the correctly rounded 1 - c (one IEEE subtraction, compared
/// bit for bit), alpha is the same datum (bit for bit, NaN payload aside), and the same holds for the second
/// inversion (for floats the involution is exact only where 1 - c is exact -- that part is asserted in
/// `colour_inverted`; here twice-inverted must equal 1 - (1 - c), which is within (ulp(1-c) + ulp(result))/2 of c)
fn colour_inverted_float<T: FloatCC>(s: &Section) {
    let tn = T::NAME;
    s.class(&format!("type:{}", tn));
    let (site3, site4) = (format!("Rgb<{}>::inverted_rgb", tn), format!("Rgba<{}>::inverted_rgb", tn));
    let one = |c: [T; 4]| {
        let wt = c.iter().fold(0u64, |a, v| a.saturating_add(v.weight()));
        let inp = || json!({"r": jd(&c[0]), "g": jd(&c[1]), "b": jd(&c[2]), "a": jd(&c[3])});
        let w1 = [c[0].one_minus(), c[1].one_minus(), c[2].one_minus(), c[3]];
        let w2 = [w1[0].one_minus(), w1[1].one_minus(), w1[2].one_minus(), c[3]];
        let eq = |a: &[T], b: &[T]| a.iter().zip(b).all(|(x, y)| x.same(*y));
        s.eval(true);
        if let Some((g1, g2)) = s.call(&site4, inp, || { let i = Rgba { r: c[0], g: c[1], b: c[2], a: c[3] }.inverted_rgb(); (drgba(i), drgba(i.inverted_rgb())) }) {
            if !g1[3].same(c[3]) || !g2[3].same(c[3]) { s.violation_w(&site4, "alpha-not-preserved", json!({"input": inp(), "got": jd(&g1), "twice": jd(&g2), "want": jd(&w1)}), wt); }
            if !eq(&g1[..3], &w1[..3]) { s.violation_w(&site4, "not-full-minus-channel", json!({"input": inp(), "got": jd(&g1), "want": jd(&w1)}), wt); }
            if !eq(&g2[..3], &w2[..3]) { s.violation_w(&site4, "not-an-involution", json!({"input": inp(), "inverted_twice": jd(&g2), "want (1-(1-c), correctly rounded twice)": jd(&w2)}), wt); }
        }
        s.eval(true);
        if let Some((g1, g2)) = s.call(&site3, inp, || { let i = Rgb { r: c[0], g: c[1], b: c[2] }.inverted_rgb(); (drgb(i), drgb(i.inverted_rgb())) }) {
            if !eq(&g1, &w1[..3]) { s.violation_w(&site3, "not-full-minus-channel", json!({"input": inp(), "got": jd(&g1), "want": jd(&w1[..3].to_vec())}), wt); }
            if !eq(&g2, &w2[..3]) { s.violation_w(&site3, "not-an-involution", json!({"input": inp(), "inverted_twice": jd(&g2), "want (1-(1-c), correctly rounded twice)": jd(&w2[..3].to_vec())}), wt); }
        }
        // the derived closeness of the twice-inverted value to the input (moderate finite values; exact in f64 for f32,
        // and for f64 the differences below are of nearby doubles, hence exact too)
        for k in 0..3 {
            let (c0, a, b) = (c[k].to64(), w1[k].to64(), w2[k].to64());
            if !(c0.abs() <= 1024.0) || c0 == 0.0 { continue; }
            let ulp = |x: f64| -> f64 { let x = x.abs().max(f64::MIN_POSITIVE); let e = x.log2().floor(); 2f64.powf(e) * 2.0 * T::U };
            s.eval(true);
            if !((b - c0).abs() <= (ulp(a) + ulp(b)) / 2.0 * 1.0000001) { s.violation_w(&site4, "twice-inverted-not-within-derived-bound-of-input", json!({"input": inp(), "channel": k, "1-c": a, "1-(1-c)": b, "bound": (ulp(a) + ulp(b)) / 2.0}), wt); }
        }
        if s.wants_sample() && tn == "f32" && c[0].to64() > 0.19 && c[0].to64() < 0.21 { s.sample(json!({"type": tn, "rgba": jd(&c), "inverted_rgb must be": jd(&w1), "twice": jd(&w2)})); }
    };
    let fx = T::fixed();
    let (gen, spec) = (T::general(s.thorough()), T::specials());
    for pos in 0..4 {
        for &v in &gen { let mut c = fx; c[pos] = v; s.class("float-general"); one(c); }
        for &v in &spec { let mut c = fx; c[pos] = v; s.class("float-special"); one(c); }
    }
    // a small full product mixing ordinary, HDR, negative and special values in all four positions
    let mix: Vec<T> = { let mut m: Vec<T> = vec![gen[51], gen[200], gen[256], gen[263], gen[267]]; m.extend(spec.iter().copied().filter(|v| !v.is_nan_()).take(3)); m.push(spec[spec.len() - 3]); m.push(spec[spec.len() - 1]); m };
    for &r in &mix { for &g in &mix { for &b in &mix { for &a in &mix { s.class("float-mixed-product"); one([r, g, b, a]); } } } }
}

/// error-free sum of two doubles: (fl(a+b), a+b-fl(a+b))
fn two_sum(a: f64, b: f64) -> (f64, f64) { let s = a + b; let bb = s - a; (s, (a - (s - bb)) + (b - bb)) }

/// average_rgb on general floats (inexact sums, HDR, negative): within the forward error bound of evaluating
/// (r+g+b)/3 in the type, in any order: |got - (r+g+b)/3| <= 4u (|r|+|g|+|b|)/3  (+ u for the oracle's own final
/// rounding in f64).  The exact sum is formed in f64 and checked to be exact with TwoSum.
fn colour_average_float<T: FloatCC>(s: &Section) {
    let tn = T::NAME;
    s.class(&format!("type:{}", tn));
    let vals = T::avg_values(s.thorough());
    let alphas = [T::zero_ref(), T::fixed()[3]];
    let (site3, site4) = (format!("Rgb<{}>::average_rgb", tn), format!("Rgba<{}>::average_rgb", tn));
    let mut cnt = [0u64; 4];
    for &r in &vals { for &g in &vals { for &b in &vals {
        let (r6, g6, b6) = (r.to64(), g.to64(), b.to64());
        let (s1, e1) = two_sum(r6, g6); let (s2, e2) = two_sum(s1, b6);
        if e1 != 0.0 || e2 != 0.0 { s.rep.machinery_error(format!("average_rgb float oracle: r+g+b not exact in f64 for {:?} {:?} {:?}", r, g, b)); continue; }
        let want = s2 / 3.0;
        let scale = (r6.abs() + g6.abs() + b6.abs()) / 3.0;
        let bound = (4.0 * T::U + 2.0 * f64::EPSILON) * scale;
        let exact_sum_in_type = T::U < 1e-10 || { let q = |v: f64| (v as f32) as f64 == v; q(s1) && q(s2) };
        if exact_sum_in_type { cnt[0] += 1; } else { cnt[1] += 1; }
        if r6 < 0.0 || g6 < 0.0 || b6 < 0.0 { cnt[2] += 1; }
        if r6 > 1.0 || g6 > 1.0 || b6 > 1.0 { cnt[3] += 1; }
        let wt = (scale * 4096.0) as u64;
        let nt = !(r == g && g == b);
        let inp = || json!({"r": jd(&r), "g": jd(&g), "b": jd(&b)});
        s.eval(nt);
        if let Some(got) = s.call(&site3, inp, || Rgb { r, g, b }.average_rgb()) {
            if !((got.to64() - want).abs() <= bound) { s.violation_w(&site3, "not-sum-over-3", json!({"input": inp(), "got": jd(&got), "want": want, "bound": bound}), wt); }
        }
        for &a in &alphas {
            s.eval(nt);
            if let Some(got) = s.call(&site4, inp, || Rgba { r, g, b, a }.average_rgb()) {
                if !((got.to64() - want).abs() <= bound) { s.violation_w(&site4, "not-sum-over-3", json!({"input": inp(), "alpha": jd(&a), "got": jd(&got), "want": want, "bound": bound}), wt); }
            }
        }
    } } }
    for (k, name) in ["float-sum-exact-in-type", "float-sum-rounded-in-type", "float-negative-channel", "float-above-full"].iter().enumerate() { if cnt[k] > 0 { s.class_n(name, cnt[k]); } }
}

/// thorough tier: average_rgb on u8 is decided completely (all 2^24 triples; those whose sum or partial sum
/// exceeds 255 are counted and not called)
fn colour_average_u8_exhaustive(s: &Section) {
    let al: Vec<u8> = (0..=255u8).collect();
    par_tuples(&al, 2, |t| {
        let (r, g) = (t[0], t[1]);
        let (mut called, mut skipped, mut nt) = (0u64, 0u64, 0u64);
        for b in 0..=255u8 {
            let sum = r as u32 + g as u32 + b as u32;
            if sum > 255 || r as u32 + g as u32 > 255 { skipped += 1; continue; }
            let want = (sum / 3) as u8;
            let inp = || json!({"r": r, "g": g, "b": b});
            let got3 = s.call("Rgb<u8>::average_rgb", inp, || Rgb { r, g, b }.average_rgb());
            let got4 = s.call("Rgba<u8>::average_rgb", inp, || Rgba { r, g, b, a: 255u8.wrapping_sub(b) }.average_rgb());
            if let Some(x) = got3 { if x != want { s.violation_w("Rgb<u8>::average_rgb", "not-sum-over-3", json!({"input": inp(), "got": x, "want": want}), sum as u64); } }
            if let Some(x) = got4 { if x != want { s.violation_w("Rgba<u8>::average_rgb", "not-sum-over-3", json!({"input": inp(), "got": x, "want": want}), sum as u64); } }
            called += 2; if !(r == g && g == b) { nt += 2; }
        }
        s.evals(called, nt);
        s.class_n("u8-exhaustive: sum-representable", called / 2);
        s.class_n("u8-exhaustive: sum-not-representable (not called)", skipped);
    });
}

// =================================================================================================
// 9. (added by the audit) the parametricity premise: functions whose bounds let them observe or combine elements
// =================================================================================================
/// A function `impl<T>` without bounds can only move elements, so one run on distinct symbols decides it.  But
/// `T: Zero` gives the code `is_zero()` and `+`, `T: One` gives `*`, `T: ColorComponent` gives both plus `full()`:
/// such a function *can* treat a zero element differently or combine elements.  (Results are compared modulo
/// the neutral-element laws x+0 = x, 1*x = x, 0*x = 0, so only a semantic difference counts.)  Every anchored function with such a
/// bound is therefore run on the free term algebra (`Term`: every operator is recorded, nothing panics) for every
/// assignment of each element position to {its own generator, the constant 0 (is_zero() is true), 1, 255 = full()}.
fn term_alphabet(i: usize) -> [Term; 4] { [Term::var(10 + i as u32), Term::cst(0), Term::cst(1), Term::cst(255)] }
fn term_cases(n: usize, choices: usize, mut f: impl FnMut(&[Term], &[usize])) {
    let idx: Vec<usize> = (0..choices).collect();
    tuples(&idx, n, |t| { let e: Vec<Term> = t.iter().enumerate().map(|(i, &c)| term_alphabet(i)[c]).collect(); f(&e, t); });
}
/// neutral-element laws of a ring, so that the comparison below is semantic (x + 0, 1 * x ... still count as x)
fn simp(t: Term) -> Term {
    let (z, o) = (Term::cst(0), Term::cst(1));
    match t.node() {
        Node::Un(op, a) => { let a = simp(a); if op == "neg" && a == z { z } else { Term::un(op, a) } }
        Node::Bin(op, a, b) => { let (a, b) = (simp(a), simp(b)); match op {
            "add" if a == z => b, "add" | "sub" if b == z => a,
            "mul" if a == z || b == z => z, "mul" if a == o => b, "mul" | "div" if b == o => a,
            _ => Term::bin(op, a, b) } }
        _ => t,
    }
}
fn obs_class(s: &Section, t: &[usize]) {
    if t.iter().all(|&c| c == 0) { s.class("all-generators"); }
    if t.iter().any(|&c| c == 1) { s.class("contains-zero"); }
    if t.iter().any(|&c| c == 2) { s.class("contains-one"); }
    if t.iter().any(|&c| c == 3) { s.class("contains-full"); }
    if t.iter().all(|&c| c == 1) { s.class("all-zero"); }
}
macro_rules! matobs { ($s:expr, $choices:expr, $lay:ident, $ls:expr, $Dst:ident $nd:literal <- $Src:ident $ns:literal) => {{
    let s: &Section = $s;
    let site = format!("From<{}> for {} ({}-major) on observable elements", stringify!($Src), stringify!($Dst), $ls);
    term_cases($ns * $ns, $choices, |e, t| {
        obs_class(s, t);
        let mut a = [[Term::cst(0); $ns]; $ns];
        for i in 0..$ns { for j in 0..$ns { a[i][j] = e[i * $ns + j]; } }
        let src = <$lay::$Src<Term> as MatIO<Term, $ns>>::build(&a);
        let inp = || json!({"src": jd(&a)});
        let got = s.call(&site, inp, || { let d: $lay::$Dst<Term> = <$lay::$Dst<Term> as From<$lay::$Src<Term>>>::from(src); let mut o = <$lay::$Dst<Term> as MatIO<Term, $nd>>::decode(&d); for r in o.iter_mut() { for x in r.iter_mut() { *x = simp(*x); } } o });
        let mut want = [[Term::cst(0); $nd]; $nd];
        for i in 0..$nd { for j in 0..$nd { want[i][j] = if i < $ns && j < $ns { a[i][j] } else if i == j { Term::cst(1) } else { Term::cst(0) }; } }
        chk(s, &site, "wrong-routing-on-special-elements", &inp, got, &want, t.iter().any(|&c| c != 0), t.iter().sum::<usize>() as u64);
    });
}}}
fn sec_observable(s: &Section) {
    s.require_classes(&["all-generators", "contains-zero", "contains-one", "contains-full", "all-zero"]);
    let (z, o, fu) = (Term::cst(0), Term::cst(1), Term::cst(255));
    let run = |site: &str, n: usize, f: &dyn Fn(&[Term]) -> Vec<Term>, want: &dyn Fn(&[Term]) -> Vec<Term>| {
        let site = format!("{} on observable elements", site);
        term_cases(n, 4, |e, t| {
            obs_class(s, t);
            let inp = || json!({"elements": jd(&e)});
            let structural = site.contains("average_rgb");
            let norm = |v: Vec<Term>| -> Vec<Term> { if structural { v } else { v.into_iter().map(simp).collect() } };
            let got = s.call(&site, inp, || norm(f(e)));
            chk(s, &site, "wrong-routing-on-special-elements", &inp, got, &norm(want(e)), t.iter().any(|&c| c != 0), t.iter().sum::<usize>() as u64);
            if s.wants_sample() && t.iter().filter(|&&c| c == 1).count() == 2 && n == 3 { s.sample(json!({"call": site, "elements": jd(&e), "must_be": jd(&want(e))})); }
        });
    };
    let t2 = |e: &[Term]| Vec2 { x: e[0], y: e[1] };
    let t3 = |e: &[Term]| Vec3 { x: e[0], y: e[1], z: e[2] };
    let t4 = |e: &[Term]| Vec4 { x: e[0], y: e[1], z: e[2], w: e[3] };
    let c3 = |e: &[Term]| Rgb { r: e[0], g: e[1], b: e[2] };
    // T: Zero
    run("From<Vec2> for Vec3", 2, &|e| dv3(&Vec3::from(t2(e))).to_vec(), &|e| vec![e[0], e[1], z]);
    run("From<Vec2> for Vec4", 2, &|e| dv4(&Vec4::from(t2(e))).to_vec(), &|e| vec![e[0], e[1], z, z]);
    run("From<Vec3> for Vec4", 3, &|e| dv4(&Vec4::from(t3(e))).to_vec(), &|e| vec![e[0], e[1], e[2], z]);
    run("Vec2::with_w", 3, &|e| dv4(&t2(e).with_w(e[2])).to_vec(), &|e| vec![e[0], e[1], z, e[2]]);
    run("Vec4::new_direction", 3, &|e| dv4(&Vec4::new_direction(e[0], e[1], e[2])).to_vec(), &|e| vec![e[0], e[1], e[2], z]);
    run("Vec4::from_direction(Vec3)", 3, &|e| dv4(&Vec4::from_direction(t3(e))).to_vec(), &|e| vec![e[0], e[1], e[2], z]);
    run("Vec4::from_direction(Vec2)", 2, &|e| dv4(&Vec4::from_direction(t2(e))).to_vec(), &|e| vec![e[0], e[1], z, z]);
    run("Vec4::from_direction(Vec4)", 4, &|e| dv4(&Vec4::from_direction(t4(e))).to_vec(), &|e| vec![e[0], e[1], e[2], z]);
    run("Vec3::new_direction_2d", 2, &|e| dv3(&Vec3::new_direction_2d(e[0], e[1])).to_vec(), &|e| vec![e[0], e[1], z]);
    run("Vec3::from_direction_2d(Vec2)", 2, &|e| dv3(&Vec3::from_direction_2d(t2(e))).to_vec(), &|e| vec![e[0], e[1], z]);
    run("Vec3::from_direction_2d(Vec3)", 3, &|e| dv3(&Vec3::from_direction_2d(t3(e))).to_vec(), &|e| vec![e[0], e[1], z]);
    run("Vec3::from_direction_2d(Vec4)", 4, &|e| dv3(&Vec3::from_direction_2d(t4(e))).to_vec(), &|e| vec![e[0], e[1], z]);
    // T: One (+ Zero through Into)
    run("Vec4::new_point", 3, &|e| dv4(&Vec4::new_point(e[0], e[1], e[2])).to_vec(), &|e| vec![e[0], e[1], e[2], o]);
    run("Vec4::from_point(Vec3)", 3, &|e| dv4(&Vec4::from_point(t3(e))).to_vec(), &|e| vec![e[0], e[1], e[2], o]);
    run("Vec4::from_point(Vec2)", 2, &|e| dv4(&Vec4::from_point(t2(e))).to_vec(), &|e| vec![e[0], e[1], z, o]);
    run("Vec4::from_point(Vec4)", 4, &|e| dv4(&Vec4::from_point(t4(e))).to_vec(), &|e| vec![e[0], e[1], e[2], o]);
    run("Vec3::new_point_2d", 2, &|e| dv3(&Vec3::new_point_2d(e[0], e[1])).to_vec(), &|e| vec![e[0], e[1], o]);
    run("Vec3::from_point_2d(Vec2)", 2, &|e| dv3(&Vec3::from_point_2d(t2(e))).to_vec(), &|e| vec![e[0], e[1], o]);
    run("Vec3::from_point_2d(Vec3)", 3, &|e| dv3(&Vec3::from_point_2d(t3(e))).to_vec(), &|e| vec![e[0], e[1], o]);
    run("Vec3::from_point_2d(Vec4)", 4, &|e| dv3(&Vec3::from_point_2d(t4(e))).to_vec(), &|e| vec![e[0], e[1], o]);
    // T: ColorComponent (: Zero)
    run("From<Rgb> for Rgba", 3, &|e| drgba(Rgba::from(c3(e))).to_vec(), &|e| vec![e[0], e[1], e[2], fu]);
    run("Rgba::new_opaque", 3, &|e| drgba(Rgba::new_opaque(e[0], e[1], e[2])).to_vec(), &|e| vec![e[0], e[1], e[2], fu]);
    run("Rgba::new_transparent", 3, &|e| drgba(Rgba::new_transparent(e[0], e[1], e[2])).to_vec(), &|e| vec![e[0], e[1], e[2], z]);
    run("Rgba::from_opaque", 3, &|e| drgba(Rgba::from_opaque(c3(e))).to_vec(), &|e| vec![e[0], e[1], e[2], fu]);
    run("Rgba::from_transparent", 3, &|e| drgba(Rgba::from_transparent(c3(e))).to_vec(), &|e| vec![e[0], e[1], e[2], z]);
    run("Rgb::gray", 1, &|e| drgb(Rgb::gray(e[0])).to_vec(), &|e| vec![e[0]; 3]);
    run("Rgb::grey", 1, &|e| drgb(Rgb::grey(e[0])).to_vec(), &|e| vec![e[0]; 3]);
    run("Rgba::gray", 1, &|e| drgba(Rgba::gray(e[0])).to_vec(), &|e| vec![e[0], e[0], e[0], fu]);
    run("Rgba::grey", 1, &|e| drgba(Rgba::grey(e[0])).to_vec(), &|e| vec![e[0], e[0], e[0], fu]);
    // the arithmetic helpers, structurally: exactly `full() - c` per channel (alpha untouched), and
    // (r + g + b) / 3 with the sum in any association -- for every element type at once
    let sub = |c: Term| Term::bin("sub", fu, c);
    run("Rgba::inverted_rgb (term structure)", 4, &|e| drgba(Rgba { r: e[0], g: e[1], b: e[2], a: e[3] }.inverted_rgb()).to_vec(), &|e| vec![sub(e[0]), sub(e[1]), sub(e[2]), e[3]]);
    run("Rgb::inverted_rgb (term structure)", 3, &|e| drgb(c3(e).inverted_rgb()).to_vec(), &|e| vec![sub(e[0]), sub(e[1]), sub(e[2])]);
    let avg_shape = |t: Term| -> Vec<Term> { match t.node() { Node::Bin("div", num, den) => { let mut v = num.ac_leaves("add"); v.push(den); v } _ => vec![t] } };
    let avg_want = |e: &[Term]| -> Vec<Term> { let mut v = vec![e[0], e[1], e[2]]; v.sort(); v.push(Term::cst(3)); v };
    run("Rgba::average_rgb (term structure)", 4, &|e| avg_shape(Rgba { r: e[0], g: e[1], b: e[2], a: e[3] }.average_rgb()), &|e| avg_want(e));
    run("Rgb::average_rgb (term structure)", 3, &|e| avg_shape(c3(e).average_rgb()), &|e| avg_want(e));
    // growing matrix conversions (T: Zero + One), both layouts; entries over {generator, 0, 1} (thorough: also 255)
    let ch = if s.thorough() { 4 } else { 3 };
    matobs!(s, 4, rm, "row", Mat3 3 <- Mat2 2); matobs!(s, 4, cm, "col", Mat3 3 <- Mat2 2);
    matobs!(s, 4, rm, "row", Mat4 4 <- Mat2 2); matobs!(s, 4, cm, "col", Mat4 4 <- Mat2 2);
    matobs!(s, ch, rm, "row", Mat4 4 <- Mat3 3); matobs!(s, ch, cm, "col", Mat4 4 <- Mat3 3);
    s.meta("element_alphabet_per_position", json!(["own generator v_i", "0 (is_zero)", "1", "255 (full)"]));
}

// =================================================================================================
// 10. (added by the audit) generic `Into<..>` argument forms, call sequences, concrete unit vectors
// =================================================================================================
fn sec_into_forms(s: &Section) {
    s.require_classes(&["colour-from-other-kind", "colour-from-tuple-or-array", "colour-from-scalar", "homogeneous-from-other-kind", "homogeneous-from-tuple-or-array", "homogeneous-from-scalar"]);
    let e = [Sym(2), Sym(3), Sym(4), Sym(5)];
    let op = Sym(9);
    let case = |site: &str, class: &str, f: &dyn Fn() -> Vec<Sym>, want: Vec<Sym>| {
        s.class(class);
        let inp = || json!({"elements": jd(&e), "opacity": jd(&op)});
        let got = s.call(site, inp, f);
        chk_sym(s, site, "wrong-routing", &inp, got, &want, true, 0);
        if s.wants_sample() && class.ends_with("other-kind") { s.sample(json!({"call": site, "elements": jd(&e), "must_be": jd(&want)})); }
    };
    let v3 = Vec3 { x: e[0], y: e[1], z: e[2] };
    let c4 = Rgba { r: e[0], g: e[1], b: e[2], a: e[3] };
    let (k, k2) = ("colour-from-other-kind", "colour-from-tuple-or-array");
    // V: Into<Rgb<T>>: a Vec3 is taken as is, an Rgba loses its alpha first (which is then replaced)
    case("Rgba::from_opaque(Vec3)", k, &|| drgba(Rgba::from_opaque(v3)).to_vec(), vec![e[0], e[1], e[2], FULL]);
    case("Rgba::from_opaque(Rgba)", k, &|| drgba(Rgba::from_opaque(c4)).to_vec(), vec![e[0], e[1], e[2], FULL]);
    case("Rgba::from_transparent(Vec3)", k, &|| drgba(Rgba::from_transparent(v3)).to_vec(), vec![e[0], e[1], e[2], ZERO]);
    case("Rgba::from_transparent(Rgba)", k, &|| drgba(Rgba::from_transparent(c4)).to_vec(), vec![e[0], e[1], e[2], ZERO]);
    case("Rgba::from_translucent(Vec3)", k, &|| drgba(Rgba::from_translucent(v3, op)).to_vec(), vec![e[0], e[1], e[2], op]);
    case("Rgba::from_translucent(Rgba)", k, &|| drgba(Rgba::from_translucent(c4, op)).to_vec(), vec![e[0], e[1], e[2], op]);
    case("Rgba::from_opaque((r,g,b))", k2, &|| drgba(Rgba::from_opaque((e[0], e[1], e[2]))).to_vec(), vec![e[0], e[1], e[2], FULL]);
    case("Rgba::from_opaque([r,g,b])", k2, &|| drgba(Rgba::from_opaque([e[0], e[1], e[2]])).to_vec(), vec![e[0], e[1], e[2], FULL]);
    case("Rgba::from_transparent((r,g,b))", k2, &|| drgba(Rgba::from_transparent((e[0], e[1], e[2]))).to_vec(), vec![e[0], e[1], e[2], ZERO]);
    case("Rgba::from_translucent([r,g,b])", k2, &|| drgba(Rgba::from_translucent([e[0], e[1], e[2]], op)).to_vec(), vec![e[0], e[1], e[2], op]);
    case("Rgba::from_opaque(scalar)", "colour-from-scalar", &|| drgba(Rgba::from_opaque(e[0])).to_vec(), vec![e[0], e[0], e[0], FULL]);
    case("Rgba::from_translucent(scalar)", "colour-from-scalar", &|| drgba(Rgba::from_translucent(e[0], op)).to_vec(), vec![e[0], e[0], e[0], op]);
    // V: Into<Vec3<T>> / Into<Vec2<T>>
    let (h, h2) = ("homogeneous-from-other-kind", "homogeneous-from-tuple-or-array");
    let x3 = Extent3 { w: e[0], h: e[1], d: e[2] };
    let x2 = Extent2 { w: e[0], h: e[1] };
    let rgb = Rgb { r: e[0], g: e[1], b: e[2] };
    let uvw = Uvw { u: e[0], v: e[1], w: e[2] };
    case("Vec4::from_point(Extent3)", h, &|| dv4(&Vec4::from_point(x3)).to_vec(), vec![e[0], e[1], e[2], ONE]);
    case("Vec4::from_direction(Extent3)", h, &|| dv4(&Vec4::from_direction(x3)).to_vec(), vec![e[0], e[1], e[2], ZERO]);
    case("Vec4::from_point(Rgb)", h, &|| dv4(&Vec4::from_point(rgb)).to_vec(), vec![e[0], e[1], e[2], ONE]);
    case("Vec4::from_direction(Rgb)", h, &|| dv4(&Vec4::from_direction(rgb)).to_vec(), vec![e[0], e[1], e[2], ZERO]);
    case("Vec4::from_point(Uvw)", h, &|| dv4(&Vec4::from_point(uvw)).to_vec(), vec![e[0], e[1], e[2], ONE]);
    case("Vec4::from_direction(Uvw)", h, &|| dv4(&Vec4::from_direction(uvw)).to_vec(), vec![e[0], e[1], e[2], ZERO]);
    case("Vec3::from_point_2d(Extent2)", h, &|| dv3(&Vec3::from_point_2d(x2)).to_vec(), vec![e[0], e[1], ONE]);
    case("Vec3::from_direction_2d(Extent2)", h, &|| dv3(&Vec3::from_direction_2d(x2)).to_vec(), vec![e[0], e[1], ZERO]);
    case("Vec4::from_point((x,y,z))", h2, &|| dv4(&Vec4::from_point((e[0], e[1], e[2]))).to_vec(), vec![e[0], e[1], e[2], ONE]);
    case("Vec4::from_direction([x,y,z])", h2, &|| dv4(&Vec4::from_direction([e[0], e[1], e[2]])).to_vec(), vec![e[0], e[1], e[2], ZERO]);
    case("Vec4::from_point(((x,y),z) via (Vec2,T))", h2, &|| dv4(&Vec4::from_point((Vec2 { x: e[0], y: e[1] }, e[2]))).to_vec(), vec![e[0], e[1], e[2], ONE]);
    case("Vec3::from_point_2d((x,y))", h2, &|| dv3(&Vec3::from_point_2d((e[0], e[1]))).to_vec(), vec![e[0], e[1], ONE]);
    case("Vec3::from_direction_2d([x,y])", h2, &|| dv3(&Vec3::from_direction_2d([e[0], e[1]])).to_vec(), vec![e[0], e[1], ZERO]);
    case("Vec4::from_point(scalar)", "homogeneous-from-scalar", &|| dv4(&Vec4::from_point(e[0])).to_vec(), vec![e[0], e[0], e[0], ONE]);
    case("Vec3::from_direction_2d(scalar)", "homogeneous-from-scalar", &|| dv3(&Vec3::from_direction_2d(e[0])).to_vec(), vec![e[0], e[0], ZERO]);
}

macro_rules! matchain { ($s:expr, $lay:ident, $ls:expr) => {{
    let s: &Section = $s;
    type M2 = $lay::Mat2<Sym>; type M3 = $lay::Mat3<Sym>; type M4 = $lay::Mat4<Sym>;
    let sym = |i: usize, j: usize| Sym((10 * (i + 1) + j + 1) as u16);
    let mut a2 = [[ZERO; 2]; 2]; let mut a3 = [[ZERO; 3]; 3]; let mut a4 = [[ZERO; 4]; 4];
    for i in 0..4 { for j in 0..4 { a4[i][j] = sym(i, j); if i < 3 && j < 3 { a3[i][j] = sym(i, j); } if i < 2 && j < 2 { a2[i][j] = sym(i, j); } } }
    let (m2, m3, m4) = (<M2 as MatIO<Sym, 2>>::build(&a2), <M3 as MatIO<Sym, 3>>::build(&a3), <M4 as MatIO<Sym, 4>>::build(&a4));
    let emb4 = |n: usize| { let mut w = [[ZERO; 4]; 4]; for i in 0..4 { for j in 0..4 { w[i][j] = if i < n && j < n { sym(i, j) } else if i == j { ONE } else { ZERO }; } } w };
    let inp = || json!({"entry (i,j)": "s<10(i+1)+j+1>"});
    let site = |n: &str| format!("{} ({}-major)", n, $ls);
    s.class("matrix-chain");
    chk_sym(s, &site("Mat4::from(Mat3::from(Mat2))"), "chain-differs-from-direct-embedding", &inp, s.call("chain", inp, || { let c = M4::from(M3::from(m2)); (<M4 as MatIO<Sym, 4>>::decode(&c), c == M4::from(m2)) }), &(emb4(2), true), true, 0);
    s.class("matrix-chain");
    chk_sym(s, &site("Mat2::from(Mat3::from(Mat4))"), "chain-differs-from-direct-truncation", &inp, s.call("chain", inp, || { let c = M2::from(M3::from(m4)); (<M2 as MatIO<Sym, 2>>::decode(&c), c == M2::from(m4)) }), &(a2, true), true, 0);
    s.class("matrix-round-trip");
    chk_sym(s, &site("Mat2::from(Mat3::from(Mat2))"), "shrink-after-grow-not-identity", &inp, s.call("rt", inp, || <M2 as MatIO<Sym, 2>>::decode(&M2::from(M3::from(m2)))), &a2, true, 0);
    s.class("matrix-round-trip");
    chk_sym(s, &site("Mat2::from(Mat4::from(Mat2))"), "shrink-after-grow-not-identity", &inp, s.call("rt", inp, || <M2 as MatIO<Sym, 2>>::decode(&M2::from(M4::from(m2)))), &a2, true, 0);
    s.class("matrix-round-trip");
    chk_sym(s, &site("Mat3::from(Mat4::from(Mat3))"), "shrink-after-grow-not-identity", &inp, s.call("rt", inp, || <M3 as MatIO<Sym, 3>>::decode(&M3::from(M4::from(m3)))), &a3, true, 0);
    s.class("matrix-grow-after-shrink");
    chk_sym(s, &site("Mat4::from(Mat3::from(Mat4))"), "grow-after-shrink-not-block-plus-identity", &inp, s.call("gs", inp, || <M4 as MatIO<Sym, 4>>::decode(&M4::from(M3::from(m4)))), &emb4(3), true, 0);
    s.class("matrix-grow-after-shrink");
    chk_sym(s, &site("Mat4::from(Mat2::from(Mat4))"), "grow-after-shrink-not-block-plus-identity", &inp, s.call("gs", inp, || <M4 as MatIO<Sym, 4>>::decode(&M4::from(M2::from(m4)))), &emb4(2), true, 0);
}}}
fn sec_chains(s: &Section) {
    s.require_classes(&["grow-chain", "shrink-after-grow", "grow-after-shrink", "kind-round-trip", "cross-kind-chain", "setter-sequence", "matrix-chain", "matrix-round-trip", "matrix-grow-after-shrink"]);
    let e = [Sym(2), Sym(3), Sym(4), Sym(5)];
    let sc = Sym(99);
    let v2 = Vec2 { x: e[0], y: e[1] };
    let v3 = Vec3 { x: e[0], y: e[1], z: e[2] };
    let v4 = Vec4 { x: e[0], y: e[1], z: e[2], w: e[3] };
    let x2 = Extent2 { w: e[0], h: e[1] };
    let x3 = Extent3 { w: e[0], h: e[1], d: e[2] };
    let c3 = Rgb { r: e[0], g: e[1], b: e[2] };
    let c4 = Rgba { r: e[0], g: e[1], b: e[2], a: e[3] };
    let t3 = Uvw { u: e[0], v: e[1], w: e[2] };
    let case = |site: &str, class: &str, f: &dyn Fn() -> Vec<Sym>, want: Vec<Sym>| {
        s.class(class);
        let inp = || json!({"elements": jd(&e), "scalar": jd(&sc)});
        let got = s.call(site, inp, f);
        chk_sym(s, site, "wrong-routing", &inp, got, &want, true, 0);
        if s.wants_sample() && class == "cross-kind-chain" { s.sample(json!({"chain": site, "elements": jd(&e), "must_be": jd(&want)})); }
    };
    let (a, b, c, d) = (e[0], e[1], e[2], e[3]);
    case("Vec4::<Sym>::from(Vec3::<Sym>::from(Vec2))", "grow-chain", &|| dv4(&Vec4::<Sym>::from(Vec3::<Sym>::from(v2))).to_vec(), vec![a, b, ZERO, ZERO]);
    case("Vec4::<Sym>::from((Vec3::<Sym>::from((Vec2, s)), s'))", "grow-chain", &|| dv4(&Vec4::<Sym>::from((Vec3::<Sym>::from((v2, sc)), d))).to_vec(), vec![a, b, sc, d]);
    case("Vec4::<Sym>::from(Vec3::<Sym>::from((Vec2, s)))", "grow-chain", &|| dv4(&Vec4::<Sym>::from(Vec3::<Sym>::from((v2, sc)))).to_vec(), vec![a, b, sc, ZERO]);
    case("Vec2::with_z(s).with_w(s')", "grow-chain", &|| dv4(&v2.with_z(sc).with_w(d)).to_vec(), vec![a, b, sc, d]);
    case("Vec2::<Sym>::from(Vec3::<Sym>::from(Vec2))", "shrink-after-grow", &|| dv2(&Vec2::<Sym>::from(Vec3::<Sym>::from(v2))).to_vec(), vec![a, b]);
    case("Vec2::<Sym>::from(Vec4::<Sym>::from(Vec2))", "shrink-after-grow", &|| dv2(&Vec2::<Sym>::from(Vec4::<Sym>::from(v2))).to_vec(), vec![a, b]);
    case("Vec3::<Sym>::from(Vec4::<Sym>::from(Vec3))", "shrink-after-grow", &|| dv3(&Vec3::<Sym>::from(Vec4::<Sym>::from(v3))).to_vec(), vec![a, b, c]);
    case("Vec3::<Sym>::from(Vec4::<Sym>::from((Vec3, s)))", "shrink-after-grow", &|| dv3(&Vec3::<Sym>::from(Vec4::<Sym>::from((v3, sc)))).to_vec(), vec![a, b, c]);
    case("Vec3::<Sym>::from(Vec4::<Sym>::from_point(Vec3))", "shrink-after-grow", &|| dv3(&Vec3::<Sym>::from(Vec4::<Sym>::from_point(v3))).to_vec(), vec![a, b, c]);
    case("Vec2::<Sym>::from(Vec3::<Sym>::from_point_2d(Vec2))", "shrink-after-grow", &|| dv2(&Vec2::<Sym>::from(Vec3::<Sym>::from_point_2d(v2))).to_vec(), vec![a, b]);
    case("Rgb::<Sym>::from(Rgba::<Sym>::from((Rgb, s)))", "shrink-after-grow", &|| drgb(Rgb::<Sym>::from(Rgba::<Sym>::from((c3, sc)))).to_vec(), vec![a, b, c]);
    case("Rgba::rgb of Rgba::<Sym>::from(Rgb)", "shrink-after-grow", &|| drgb(Rgba::<Sym>::from(c3).rgb()).to_vec(), vec![a, b, c]);
    case("Vec4::<Sym>::from(Vec3::<Sym>::from(Vec4))", "grow-after-shrink", &|| dv4(&Vec4::<Sym>::from(Vec3::<Sym>::from(v4))).to_vec(), vec![a, b, c, ZERO]);
    case("Vec4::<Sym>::from(Vec2::<Sym>::from(Vec4))", "grow-after-shrink", &|| dv4(&Vec4::<Sym>::from(Vec2::<Sym>::from(v4))).to_vec(), vec![a, b, ZERO, ZERO]);
    case("Vec3::<Sym>::from(Vec2::<Sym>::from(Vec3))", "grow-after-shrink", &|| dv3(&Vec3::<Sym>::from(Vec2::<Sym>::from(v3))).to_vec(), vec![a, b, ZERO]);
    case("Rgba::<Sym>::from(Rgb::<Sym>::from(Rgba))", "grow-after-shrink", &|| drgba(Rgba::<Sym>::from(Rgb::<Sym>::from(c4))).to_vec(), vec![a, b, c, FULL]);
    case("Vec4::xyz().with_w(s)", "grow-after-shrink", &|| dv4(&v4.xyz().with_w(sc)).to_vec(), vec![a, b, c, sc]);
    case("Vec4::xy().with_w(s)", "grow-after-shrink", &|| dv4(&v4.xy().with_w(sc)).to_vec(), vec![a, b, ZERO, sc]);
    case("Vec2::<Sym>::from(Extent2::<Sym>::from(Vec2))", "kind-round-trip", &|| dv2(&Vec2::<Sym>::from(Extent2::<Sym>::from(v2))).to_vec(), vec![a, b]);
    case("Extent2::<Sym>::from(Vec2::<Sym>::from(Extent2))", "kind-round-trip", &|| { let r = Extent2::<Sym>::from(Vec2::<Sym>::from(x2)); vec![r.w, r.h] }, vec![a, b]);
    case("Vec3::<Sym>::from(Extent3::<Sym>::from(Vec3))", "kind-round-trip", &|| dv3(&Vec3::<Sym>::from(Extent3::<Sym>::from(v3))).to_vec(), vec![a, b, c]);
    case("Extent3::<Sym>::from(Vec3::<Sym>::from(Extent3))", "kind-round-trip", &|| { let r = Extent3::<Sym>::from(Vec3::<Sym>::from(x3)); vec![r.w, r.h, r.d] }, vec![a, b, c]);
    case("Vec3::<Sym>::from(Rgb::<Sym>::from(Vec3))", "kind-round-trip", &|| dv3(&Vec3::<Sym>::from(Rgb::<Sym>::from(v3))).to_vec(), vec![a, b, c]);
    case("Rgb::<Sym>::from(Vec3::<Sym>::from(Rgb))", "kind-round-trip", &|| drgb(Rgb::<Sym>::from(Vec3::<Sym>::from(c3))).to_vec(), vec![a, b, c]);
    case("Vec3::<Sym>::from(Uvw::<Sym>::from(Vec3))", "kind-round-trip", &|| dv3(&Vec3::<Sym>::from(Uvw::<Sym>::from(v3))).to_vec(), vec![a, b, c]);
    case("Uvw::<Sym>::from(Vec3::<Sym>::from(Uvw))", "kind-round-trip", &|| { let r = Uvw::<Sym>::from(Vec3::<Sym>::from(t3)); vec![r.u, r.v, r.w] }, vec![a, b, c]);
    case("Vec4::<Sym>::from(Rgba::<Sym>::from(Vec4))", "kind-round-trip", &|| dv4(&Vec4::<Sym>::from(Rgba::<Sym>::from(v4))).to_vec(), vec![a, b, c, d]);
    case("Rgba::<Sym>::from(Vec4::<Sym>::from(Rgba))", "kind-round-trip", &|| drgba(Rgba::<Sym>::from(Vec4::<Sym>::from(c4))).to_vec(), vec![a, b, c, d]);
    case("Extent3::<Sym>::from(Vec3::<Sym>::from(Rgb))", "cross-kind-chain", &|| { let r = Extent3::<Sym>::from(Vec3::<Sym>::from(c3)); vec![r.w, r.h, r.d] }, vec![a, b, c]);
    case("Uvw::<Sym>::from(Vec3::<Sym>::from(Vec2::<Sym>::from(Extent2)))", "cross-kind-chain", &|| { let r = Uvw::<Sym>::from(Vec3::<Sym>::from(Vec2::<Sym>::from(x2))); vec![r.u, r.v, r.w] }, vec![a, b, ZERO]);
    case("Rgba::<Sym>::from(Vec4::<Sym>::from(Vec2::<Sym>::from(Extent2)))", "cross-kind-chain", &|| drgba(Rgba::<Sym>::from(Vec4::<Sym>::from(Vec2::<Sym>::from(x2)))).to_vec(), vec![a, b, ZERO, ZERO]);
    case("Rgb::<Sym>::from(Vec3::<Sym>::from(Vec4::<Sym>::from(Rgba)))", "cross-kind-chain", &|| drgb(Rgb::<Sym>::from(Vec3::<Sym>::from(Vec4::<Sym>::from(c4)))).to_vec(), vec![a, b, c]);
    case("Uv::<Sym>::from(Vec2::<Sym>::from(Vec3::<Sym>::from(Uvw)))", "cross-kind-chain", &|| { let r = Uv::<Sym>::from(Vec2::<Sym>::from(Vec3::<Sym>::from(t3))); vec![r.u, r.v] }, vec![a, b]);
    case("Extent3::<Sym>::from((Extent2::<Sym>::from(Vec2::<Sym>::from(Vec4)), s))", "cross-kind-chain", &|| { let r = Extent3::<Sym>::from((Extent2::<Sym>::from(Vec2::<Sym>::from(v4)), sc)); vec![r.w, r.h, r.d] }, vec![a, b, sc]);
    case("Rgba::<Sym>::from(Vec4::<Sym>::from_point(Vec3::<Sym>::from(Rgb)))", "cross-kind-chain", &|| drgba(Rgba::<Sym>::from(Vec4::<Sym>::from_point(Vec3::<Sym>::from(c3)))).to_vec(), vec![a, b, c, ONE]);
    // setter / swizzle sequences: later calls act on the result of earlier ones
    let (n1, n2) = (Sym(9), Sym(8));
    case("Vec4::with_x(n).with_x(m)", "setter-sequence", &|| dv4(&v4.with_x(n1).with_x(n2)).to_vec(), vec![n2, b, c, d]);
    case("Vec4::with_x(n).with_w(m).with_y(n)", "setter-sequence", &|| dv4(&v4.with_x(n1).with_w(n2).with_y(n1)).to_vec(), vec![n1, n1, c, n2]);
    case("Vec4::with_z(n).wzyx().with_z(m).wxyz()", "setter-sequence", &|| dv4(&v4.with_z(n1).wzyx().with_z(n2).wxyz()).to_vec(), vec![a, d, n1, n2]);
    case("Vec3::with_y(n).zyx().with_x(m).xy()", "setter-sequence", &|| dv2(&v3.with_y(n1).zyx().with_x(n2).xy()).to_vec(), vec![n2, n1]);
    case("Vec2::with_y(n).yx().with_y(m)", "setter-sequence", &|| dv2(&v2.with_y(n1).yx().with_y(n2)).to_vec(), vec![n1, n2]);
    case("Vec4::wxyz() four times", "setter-sequence", &|| dv4(&v4.wxyz().wxyz().wxyz().wxyz()).to_vec(), vec![a, b, c, d]);
    case("Vec4::zyxw().wzyx().wxyz()", "setter-sequence", &|| dv4(&v4.zyxw().wzyx().wxyz()).to_vec(), vec![c, d, a, b]);
    case("Rgba::shuffled_argb().shuffled_bgra()", "setter-sequence", &|| drgba(c4.shuffled_argb().shuffled_bgra()).to_vec(), vec![b, a, d, c]);
    case("Rgba::shuffled_bgra().rgb().shuffled_bgr()", "setter-sequence", &|| drgb(c4.shuffled_bgra().rgb().shuffled_bgr()).to_vec(), vec![a, b, c]);
    matchain!(s, rm, "row");
    matchain!(s, cm, "col");
}

/// two shuffles in sequence: the second acts on the lanes produced by the first (all 256 x 256 mask pairs)
macro_rules! shuffle_seq { ($s:expr, $V:ident ($x:ident $y:ident $z:ident $w:ident)) => {{
    let s: &Section = $s;
    let vn = stringify!($V);
    let l = [Sym(10), Sym(11), Sym(12), Sym(13)];
    let h = [Sym(20), Sym(21), Sym(22), Sym(23)];
    let lo = $V { $x: l[0], $y: l[1], $z: l[2], $w: l[3] };
    let hi = $V { $x: h[0], $y: h[1], $z: h[2], $w: h[3] };
    let dec = |v: $V<Sym>| [v.$x, v.$y, v.$z, v.$w];
    let idx: Vec<usize> = (0..256).collect();
    let (site1, site2) = (format!("{}::shuffled then shuffled", vn), format!("{}::shuffled both then shuffle_lo_hi", vn));
    let (mut n, mut perm) = (0u64, 0u64);
    for &i in &idx { for &j in &idx {
        let p = [i & 3, (i >> 2) & 3, (i >> 4) & 3, (i >> 6) & 3];
        let q = [j & 3, (j >> 2) & 3, (j >> 4) & 3, (j >> 6) & 3];
        let inp = || json!({"lo": jd(&l), "hi": jd(&h), "first": p, "second": q});
        let wt = (p.iter().sum::<usize>() + q.iter().sum::<usize>()) as u64;
        let nt = i != 0xE4 || j != 0xE4; // 0xE4 = (0,1,2,3)
        chk_sym(s, &site1, "second-shuffle-does-not-act-on-first-result", &inp, s.call(&site1, inp, || dec(lo.shuffled((p[0], p[1], p[2], p[3])).shuffled([q[0], q[1], q[2], q[3]]))), &[l[p[q[0]]], l[p[q[1]]], l[p[q[2]]], l[p[q[3]]]], nt, wt);
        chk_sym(s, &site2, "second-shuffle-does-not-act-on-first-result", &inp, s.call(&site2, inp, || dec($V::shuffle_lo_hi(lo.shuffled((p[0], p[1], p[2], p[3])), hi.shuffled((p[0], p[1], p[2], p[3])), ShuffleMask4::new(q[0], q[1], q[2], q[3])))), &[l[p[q[0]]], l[p[q[1]]], h[p[q[2]]], h[p[q[3]]]], nt, wt);
        n += 1;
        let mut sp = p; sp.sort(); let mut sq = q; sq.sort();
        if sp == [0, 1, 2, 3] && sq == [0, 1, 2, 3] { perm += 1; }
    } }
    s.class_n("mask-pair", n); s.class_n("permutation-pair", perm);
    // the fixed helpers expressed through the general shuffle, on the result of a previous shuffle
    let a0 = lo.shuffled((3, 0, 2, 1)); let b0 = hi.shuffled((1, 3, 0, 2));
    let (la, lb) = ([l[3], l[0], l[2], l[1]], [h[1], h[3], h[0], h[2]]);
    let inp = || json!({"a": jd(&la), "b": jd(&lb)});
    let fixed = |name: &str, f: &dyn Fn() -> [Sym; 4], want: [Sym; 4]| { s.class("helper-after-shuffle"); let site = format!("{}::{} after shuffled", vn, name); chk_sym(s, &site, "wrong-lanes", &inp, s.call(&site, inp, f), &want, true, 0); };
    fixed("interleave_0011", &|| dec($V::interleave_0011(a0, b0)), [la[0], lb[0], la[1], lb[1]]);
    fixed("interleave_2233", &|| dec($V::interleave_2233(a0, b0)), [la[2], lb[2], la[3], lb[3]]);
    fixed("shuffle_lo_hi_0101", &|| dec($V::shuffle_lo_hi_0101(a0, b0)), [la[0], la[1], lb[0], lb[1]]);
    fixed("shuffle_hi_lo_2323", &|| dec($V::shuffle_hi_lo_2323(a0, b0)), [lb[2], lb[3], la[2], la[3]]);
    fixed("shuffled_0101", &|| dec(a0.shuffled_0101()), [la[0], la[1], la[0], la[1]]);
    fixed("shuffled_2323", &|| dec(a0.shuffled_2323()), [la[2], la[3], la[2], la[3]]);
    fixed("shuffled_0022", &|| dec(a0.shuffled_0022()), [la[0], la[0], la[2], la[2]]);
    fixed("shuffled_1133", &|| dec(a0.shuffled_1133()), [la[1], la[1], la[3], la[3]]);
    // swapped operands: the helpers are not symmetric in (a, b)
    fixed("interleave_0011 (b,a)", &|| dec($V::interleave_0011(b0, a0)), [lb[0], la[0], lb[1], la[1]]);
    fixed("shuffle_hi_lo_2323 (b,a)", &|| dec($V::shuffle_hi_lo_2323(b0, a0)), [la[2], la[3], lb[2], lb[3]]);
    fixed("shuffle_lo_hi_0101 (b,a)", &|| dec($V::shuffle_lo_hi_0101(b0, a0)), [lb[0], lb[1], la[0], la[1]]);
    fixed("interleave_2233 (b,a)", &|| dec($V::interleave_2233(b0, a0)), [lb[2], la[2], lb[3], la[3]]);
}}}
fn sec_shuffle_seq(s: &Section) {
    s.require_classes(&["mask-pair", "permutation-pair", "helper-after-shuffle"]);
    shuffle_seq!(s, Vec4 (x y z w));
    shuffle_seq!(s, Rgba (r g b a));
}

/// the 40 nullary constructors on machine element types (same table as `sec_units`, which runs them on exact X)
fn units_concrete<T: num_traits::Zero + num_traits::One + Neg<Output = T> + Copy + PartialEq + Debug + From<i8>>(s: &Section, tn: &str) {
    s.class(&format!("type:{}", tn));
    type V2<T> = Vec2<T>; type V3<T> = Vec3<T>; type V4<T> = Vec4<T>;
    let Some(table): Option<Vec<(&str, Vec<T>, Vec<i8>)>> = s.call(&format!("unit constructors<{}>", tn), || json!({}), || vec![
        ("Vec2::unit_x", dv2(&V2::<T>::unit_x()).to_vec(), vec![1, 0]), ("Vec2::unit_y", dv2(&V2::<T>::unit_y()).to_vec(), vec![0, 1]),
        ("Vec2::left", dv2(&V2::<T>::left()).to_vec(), vec![-1, 0]), ("Vec2::right", dv2(&V2::<T>::right()).to_vec(), vec![1, 0]),
        ("Vec2::up", dv2(&V2::<T>::up()).to_vec(), vec![0, 1]), ("Vec2::down", dv2(&V2::<T>::down()).to_vec(), vec![0, -1]),
        ("Vec3::unit_x", dv3(&V3::<T>::unit_x()).to_vec(), vec![1, 0, 0]), ("Vec3::unit_y", dv3(&V3::<T>::unit_y()).to_vec(), vec![0, 1, 0]), ("Vec3::unit_z", dv3(&V3::<T>::unit_z()).to_vec(), vec![0, 0, 1]),
        ("Vec3::left", dv3(&V3::<T>::left()).to_vec(), vec![-1, 0, 0]), ("Vec3::right", dv3(&V3::<T>::right()).to_vec(), vec![1, 0, 0]),
        ("Vec3::up", dv3(&V3::<T>::up()).to_vec(), vec![0, 1, 0]), ("Vec3::down", dv3(&V3::<T>::down()).to_vec(), vec![0, -1, 0]),
        ("Vec3::forward_lh", dv3(&V3::<T>::forward_lh()).to_vec(), vec![0, 0, 1]), ("Vec3::forward_rh", dv3(&V3::<T>::forward_rh()).to_vec(), vec![0, 0, -1]),
        ("Vec3::back_lh", dv3(&V3::<T>::back_lh()).to_vec(), vec![0, 0, -1]), ("Vec3::back_rh", dv3(&V3::<T>::back_rh()).to_vec(), vec![0, 0, 1]),
        ("Vec4::unit_x", dv4(&V4::<T>::unit_x()).to_vec(), vec![1, 0, 0, 0]), ("Vec4::unit_y", dv4(&V4::<T>::unit_y()).to_vec(), vec![0, 1, 0, 0]),
        ("Vec4::unit_z", dv4(&V4::<T>::unit_z()).to_vec(), vec![0, 0, 1, 0]), ("Vec4::unit_w", dv4(&V4::<T>::unit_w()).to_vec(), vec![0, 0, 0, 1]),
        ("Vec4::left", dv4(&V4::<T>::left()).to_vec(), vec![-1, 0, 0, 0]), ("Vec4::right", dv4(&V4::<T>::right()).to_vec(), vec![1, 0, 0, 0]),
        ("Vec4::up", dv4(&V4::<T>::up()).to_vec(), vec![0, 1, 0, 0]), ("Vec4::down", dv4(&V4::<T>::down()).to_vec(), vec![0, -1, 0, 0]),
        ("Vec4::forward_lh", dv4(&V4::<T>::forward_lh()).to_vec(), vec![0, 0, 1, 0]), ("Vec4::forward_rh", dv4(&V4::<T>::forward_rh()).to_vec(), vec![0, 0, -1, 0]),
        ("Vec4::back_lh", dv4(&V4::<T>::back_lh()).to_vec(), vec![0, 0, -1, 0]), ("Vec4::back_rh", dv4(&V4::<T>::back_rh()).to_vec(), vec![0, 0, 1, 0]),
        ("Vec4::unit_x_point", dv4(&V4::<T>::unit_x_point()).to_vec(), vec![1, 0, 0, 1]), ("Vec4::unit_y_point", dv4(&V4::<T>::unit_y_point()).to_vec(), vec![0, 1, 0, 1]),
        ("Vec4::unit_z_point", dv4(&V4::<T>::unit_z_point()).to_vec(), vec![0, 0, 1, 1]),
        ("Vec4::left_point", dv4(&V4::<T>::left_point()).to_vec(), vec![-1, 0, 0, 1]), ("Vec4::right_point", dv4(&V4::<T>::right_point()).to_vec(), vec![1, 0, 0, 1]),
        ("Vec4::up_point", dv4(&V4::<T>::up_point()).to_vec(), vec![0, 1, 0, 1]), ("Vec4::down_point", dv4(&V4::<T>::down_point()).to_vec(), vec![0, -1, 0, 1]),
        ("Vec4::forward_point_lh", dv4(&V4::<T>::forward_point_lh()).to_vec(), vec![0, 0, 1, 1]), ("Vec4::forward_point_rh", dv4(&V4::<T>::forward_point_rh()).to_vec(), vec![0, 0, -1, 1]),
        ("Vec4::back_point_lh", dv4(&V4::<T>::back_point_lh()).to_vec(), vec![0, 0, -1, 1]), ("Vec4::back_point_rh", dv4(&V4::<T>::back_point_rh()).to_vec(), vec![0, 0, 1, 1]),
    ]) else { return; };
    if table.len() != 40 { s.rep.machinery_error(format!("units_concrete: table has {} rows, expected 40", table.len())); }
    for (name, got, want) in table {
        let want: Vec<T> = want.into_iter().map(T::from).collect();
        let site = format!("{}<{}>", name, tn);
        chk(s, &site, "wrong-coordinates", &|| json!({}), Some(got), &want, true, 0);
    }
}

// =================================================================================================
// 11. (second audit) equality patterns: routing functions on REPEATED and special elements
// =================================================================================================
/// The routing sections above run every function on pairwise DISTINCT opaque symbols.  That decides an
/// `impl<T>` without bounds, but a function that can compare elements (`T: PartialEq`, possibly added together
/// with a "fast path") sees the same thing on every such input: all comparisons false.  A shortcut keyed on EQUAL
/// operands or lanes -- identical vectors, a palindromic vector, a gray colour, a uniform vector, a lane equal to
/// zero / one / full -- is never entered.  A function that may compare elements for equality and test them
/// against the constants is determined by its behaviour on every EQUALITY PATTERN of its element positions: every
/// set partition of the positions, each block being either a fresh generator or one of the constants 0, 1, 255.
/// They are enumerated as restricted-growth strings (`pre` pre-opened classes = the constants) over the free term
/// algebra (all operators exist, so arithmetic shows up as a structurally different term instead of a panic).
fn rgs(n: usize, pre: usize, max_new: usize, f: &mut dyn FnMut(&[usize])) {
    fn go(i: usize, n: usize, pre: usize, open: usize, max_new: usize, cur: &mut Vec<usize>, f: &mut dyn FnMut(&[usize])) {
        if i == n { f(cur); return; }
        let top = if open - pre < max_new { open + 1 } else { open };
        for c in 0..top { cur.push(c); go(i + 1, n, pre, if c == open { open + 1 } else { open }, max_new, cur, f); cur.pop(); }
    }
    go(0, n, pre, pre, max_new, &mut Vec::with_capacity(n), f);
}
fn rgs_count(n: usize, pre: usize, max_new: usize) -> u64 { let mut c = 0u64; rgs(n, pre, max_new, &mut |_| c += 1); c }
fn eq_terms(t: &[usize], consts: &[Term]) -> Vec<Term> { t.iter().map(|&c| if c < consts.len() { consts[c] } else { Term::var(60 + (c - consts.len()) as u32) }).collect() }
#[derive(Default)]
struct EqStat { n: u64, nt: u64, distinct: u64, some_equal: u64, all_equal: u64, with_const: u64 }
impl EqStat {
    fn count(&mut self, t: &[usize], pre: usize) -> bool {
        let mut d: Vec<usize> = t.to_vec(); d.sort(); d.dedup();
        let has_c = t.iter().any(|&c| c < pre);
        self.n += 1;
        if has_c { self.with_const += 1; }
        if d.len() == t.len() && !has_c { self.distinct += 1; }
        if d.len() < t.len() { self.some_equal += 1; }
        if d.len() == 1 && t.len() > 1 { self.all_equal += 1; }
        let nt = has_c || d.len() < t.len();
        if nt { self.nt += 1; }
        nt
    }
    fn flush(&self, s: &Section) {
        for (k, v) in [("all-distinct", self.distinct), ("some-positions-equal", self.some_equal), ("all-positions-equal", self.all_equal), ("contains-constant", self.with_const)] { if v > 0 { s.class_n(k, v); } }
    }
}
/// run `f` on every equality pattern of `n` positions; `want` is the plain routing; both sides modulo the neutral-element laws
fn eq_run(s: &Section, site: &str, n: usize, consts: &[Term], max_new: usize, extra: &Value, f: &dyn Fn(&[Term]) -> Vec<Term>, want: &dyn Fn(&[Term]) -> Vec<Term>) {
    let site = format!("{} on equality patterns", site);
    let mut st = EqStat::default();
    rgs(n, consts.len(), max_new, &mut |t| {
        let e = eq_terms(t, consts);
        let nt = st.count(t, consts.len());
        let inp = || json!({"elements": jd(&e), "with": extra});
        let got = s.call(&site, inp, || f(&e).into_iter().map(simp).collect::<Vec<Term>>());
        let w: Vec<Term> = want(&e).into_iter().map(simp).collect();
        let mut d = t.to_vec(); d.sort(); d.dedup();
        if got.is_none() { s.violation_w(&site, "no-result", json!({"input": inp()}), d.len() as u64); }
        chk(s, &site, "wrong-routing-on-equal-or-special-elements", &inp, got, &w, nt, d.len() as u64);
        if s.wants_sample() && nt && n == 4 && d.len() == 2 && t[0] == t[3] { s.sample(json!({"call": site, "elements": jd(&e), "must_be": jd(&w)})); }
    });
    st.flush(s);
}
fn route_row(site: &str, src: &[Term], scalar: Option<Term>) -> Vec<Term> {
    let r = FROM_TABLE.iter().find(|r| format!("From<{}> for {}", r.src, r.dst) == site).unwrap_or_else(|| panic!("conversion {} is not in FROM_TABLE", site));
    assert_eq!(src.len(), r.nsrc);
    let mut out: Vec<Term> = src.iter().copied().take(r.ndst).collect();
    while out.len() < r.ndst { out.push(match r.pad { Pad::Zero => Term::cst(0), Pad::Scalar => scalar.expect("scalar"), Pad::FullAlpha => Term::cst(255), Pad::Keep => panic!("row grows without a padding rule") }); }
    out
}
macro_rules! tconv {
    ($s:expr, $c:expr, $n_used:expr, $Dst:ident ($($df:ident)+) <- ($Src:ident ($($sf:ident)+), T)) => {{
        let site = concat!("From<(", stringify!($Src), ", T)> for ", stringify!($Dst));
        let n = [$(stringify!($sf)),+].len();
        $n_used += 1;
        eq_run($s, site, n + 1, $c, n + 1, &json!(null),
            &|e: &[Term]| { let mut k = 0usize; let src = $Src::<Term> { $($sf: { k += 1; e[k - 1] }),+ }; let d: $Dst<Term> = <$Dst<Term> as From<($Src<Term>, Term)>>::from((src, e[n])); vec![$(d.$df),+] },
            &|e: &[Term]| route_row(site, &e[..n], Some(e[n])));
    }};
    ($s:expr, $c:expr, $n_used:expr, $Dst:ident ($($df:ident)+) <- $Src:ident ($($sf:ident)+)) => {{
        let site = concat!("From<", stringify!($Src), "> for ", stringify!($Dst));
        let n = [$(stringify!($sf)),+].len();
        $n_used += 1;
        eq_run($s, site, n, $c, n, &json!(null),
            &|e: &[Term]| { let mut k = 0usize; let src = $Src::<Term> { $($sf: { k += 1; e[k - 1] }),+ }; let d: $Dst<Term> = <$Dst<Term> as From<$Src<Term>>>::from(src); vec![$(d.$df),+] },
            &|e: &[Term]| route_row(site, e, None));
    }};
}
macro_rules! tshuffle { ($s:expr, $c:expr, $V:ident ($x:ident $y:ident $z:ident $w:ident)) => {{
    let s: &Section = $s;
    let vn = stringify!($V);
    let mk = |e: &[Term]| $V { $x: e[0], $y: e[1], $z: e[2], $w: e[3] };
    let dec = |v: $V<Term>| vec![v.$x, v.$y, v.$z, v.$w];
    // the general shuffle: all 256 masks x every equality pattern of the 8 (4) lanes; constants in the thorough tier
    let none: [Term; 0] = [];
    let cs: &[Term] = if s.thorough() { $c } else { &none };
    for m in 0..256usize {
        let q = [m & 3, (m >> 2) & 3, (m >> 4) & 3, (m >> 6) & 3];
        let mask = ShuffleMask4::new(q[0], q[1], q[2], q[3]);
        eq_run(s, &format!("{}::shuffle_lo_hi", vn), 8, cs, 8, &json!({"mask": q}), &|e| dec($V::shuffle_lo_hi(mk(&e[..4]), mk(&e[4..]), mask)), &|e| vec![e[q[0]], e[q[1]], e[4 + q[2]], e[4 + q[3]]]);
        eq_run(s, &format!("{}::shuffled", vn), 4, $c, 4, &json!({"mask": q}), &|e| dec(mk(e).shuffled((q[0], q[1], q[2], q[3]))), &|e| vec![e[q[0]], e[q[1]], e[q[2]], e[q[3]]]);
    }
    // the fixed helpers: every equality pattern incl. the constants (two-operand ones: identical operands are the pattern 0123 0123;
    // quick tier: the 8-lane patterns with the constant 0 only -- 21147 instead of 372939 per helper)
    let c0 = [Term::cst(0)];
    let cs8: &[Term] = if s.thorough() { $c } else { &c0 };
    eq_run(s, &format!("{}::interleave_0011", vn), 8, cs8, 8, &json!(null), &|e| dec($V::interleave_0011(mk(&e[..4]), mk(&e[4..]))), &|e| vec![e[0], e[4], e[1], e[5]]);
    eq_run(s, &format!("{}::interleave_2233", vn), 8, cs8, 8, &json!(null), &|e| dec($V::interleave_2233(mk(&e[..4]), mk(&e[4..]))), &|e| vec![e[2], e[6], e[3], e[7]]);
    eq_run(s, &format!("{}::shuffle_lo_hi_0101", vn), 8, cs8, 8, &json!(null), &|e| dec($V::shuffle_lo_hi_0101(mk(&e[..4]), mk(&e[4..]))), &|e| vec![e[0], e[1], e[4], e[5]]);
    eq_run(s, &format!("{}::shuffle_hi_lo_2323", vn), 8, cs8, 8, &json!(null), &|e| dec($V::shuffle_hi_lo_2323(mk(&e[..4]), mk(&e[4..]))), &|e| vec![e[6], e[7], e[2], e[3]]);
    eq_run(s, &format!("{}::shuffled_0101", vn), 4, $c, 4, &json!(null), &|e| dec(mk(e).shuffled_0101()), &|e| vec![e[0], e[1], e[0], e[1]]);
    eq_run(s, &format!("{}::shuffled_2323", vn), 4, $c, 4, &json!(null), &|e| dec(mk(e).shuffled_2323()), &|e| vec![e[2], e[3], e[2], e[3]]);
    eq_run(s, &format!("{}::shuffled_0022", vn), 4, $c, 4, &json!(null), &|e| dec(mk(e).shuffled_0022()), &|e| vec![e[0], e[0], e[2], e[2]]);
    eq_run(s, &format!("{}::shuffled_1133", vn), 4, $c, 4, &json!(null), &|e| dec(mk(e).shuffled_1133()), &|e| vec![e[1], e[1], e[3], e[3]]);
}}}
macro_rules! tmat { ($s:expr, $c:expr, $max_new:expr, $lay:ident, $ls:expr, $Dst:ident $nd:literal <- $Src:ident $ns:literal) => {{
    let site = format!("From<{}> for {} ({}-major)", stringify!($Src), stringify!($Dst), $ls);
    eq_run($s, &site, $ns * $ns, $c, $max_new, &json!(null),
        &|e: &[Term]| { let mut a = [[Term::cst(0); $ns]; $ns]; for i in 0..$ns { for j in 0..$ns { a[i][j] = e[i * $ns + j]; } }
            let d: $lay::$Dst<Term> = <$lay::$Dst<Term> as From<$lay::$Src<Term>>>::from(<$lay::$Src<Term> as MatIO<Term, $ns>>::build(&a));
            <$lay::$Dst<Term> as MatIO<Term, $nd>>::decode(&d).iter().flat_map(|r| r.iter().copied()).collect() },
        &|e: &[Term]| { let mut w = Vec::new(); for i in 0..$nd { for j in 0..$nd { w.push(if i < $ns && j < $ns { e[i * $ns + j] } else if i == j { Term::cst(1) } else { Term::cst(0) }); } } w });
}}}
/// shrinking conversions of a Mat4 whose border (last row / last column) holds the special patterns of affine and
/// embedded matrices; the upper-left block keeps its own generators
macro_rules! tmat_border { ($s:expr, $lay:ident, $ls:expr, $Dst:ident $nd:literal) => {{
    let s: &Section = $s;
    let site = format!("From<Mat4> for {} ({}-major) on special borders", stringify!($Dst), $ls);
    let (z, o, g) = (Term::cst(0), Term::cst(1), Term::var(59));
    // every border entry of rows/columns >= nd over {own generator, shared generator, 0, 1} would be 4^7 / 4^12; the named
    // patterns below are the ones a shortcut can be keyed on; the thorough tier enumerates {own, 0, 1}^border completely
    let border: Vec<(usize, usize)> = (0..4).flat_map(|i| (0..4).map(move |j| (i, j))).filter(|&(i, j)| i >= $nd || j >= $nd).collect();
    let own = |i: usize, j: usize| Term::var(100 + (4 * i + j) as u32);
    let mut pats: Vec<(String, Vec<Term>)> = Vec::new();
    let mkp = |f: &dyn Fn(usize, usize) -> Term| -> Vec<Term> { border.iter().map(|&(i, j)| f(i, j)).collect() };
    pats.push(("identity-padding".into(), mkp(&|i, j| if i == j { o } else { z })));
    pats.push(("affine last row (0,..,0,1), own last column".into(), mkp(&|i, j| if i == 3 { if j == 3 { o } else { z } } else { own(i, j) })));
    pats.push(("affine last column (0,..,0,1), own last row".into(), mkp(&|i, j| if j == 3 { if i == 3 { o } else { z } } else { own(i, j) })));
    pats.push(("zero border".into(), mkp(&|_, _| z)));
    pats.push(("all-ones border".into(), mkp(&|_, _| o)));
    pats.push(("uniform border (one shared generator)".into(), mkp(&|_, _| g)));
    pats.push(("corner 0, rest own".into(), mkp(&|i, j| if i == 3 && j == 3 { z } else { own(i, j) })));
    pats.push(("corner 1, rest own".into(), mkp(&|i, j| if i == 3 && j == 3 { o } else { own(i, j) })));
    pats.push(("zero border, corner own".into(), mkp(&|i, j| if i == 3 && j == 3 { own(i, j) } else { z })));
    if s.thorough() { let ch = [0usize, 1, 2]; tuples(&ch, border.len().min(9), |t| { pats.push(("product".into(), border.iter().enumerate().map(|(k, &(i, j))| match t.get(k).copied().unwrap_or(0) { 1 => z, 2 => o, _ => own(i, j) }).collect())); }); }
    for (name, p) in pats.iter() {
        let mut a = [[z; 4]; 4];
        for i in 0..4 { for j in 0..4 { a[i][j] = own(i, j); } }
        for (k, &(i, j)) in border.iter().enumerate() { a[i][j] = p[k]; }
        let inp = || json!({"pattern": name, "src": jd(&a)});
        let got = s.call(&site, inp, || { let d: $lay::$Dst<Term> = <$lay::$Dst<Term> as From<$lay::Mat4<Term>>>::from(<$lay::Mat4<Term> as MatIO<Term, 4>>::build(&a)); let mut o = <$lay::$Dst<Term> as MatIO<Term, $nd>>::decode(&d); for r in o.iter_mut() { for x in r.iter_mut() { *x = simp(*x); } } o });
        let mut want = [[z; $nd]; $nd];
        for i in 0..$nd { for j in 0..$nd { want[i][j] = a[i][j]; } }
        s.class("matrix-special-border");
        if got.is_none() { s.violation(&site, "no-result", json!({"input": inp()})); }
        chk(s, &site, "wrong-routing-on-equal-or-special-elements", &inp, got, &want, true, 0);
    }
}}}
fn sec_equal_patterns(s: &Section) {
    s.require_classes(&["all-distinct", "some-positions-equal", "all-positions-equal", "contains-constant", "matrix-special-border"]);
    let (z, o, fu) = (Term::cst(0), Term::cst(1), Term::cst(255));
    let cs_arr = [z, o, fu];
    let cs: &[Term] = &cs_arr;
    let nul = json!(null);
    let t2 = |e: &[Term]| Vec2 { x: e[0], y: e[1] };
    let t3 = |e: &[Term]| Vec3 { x: e[0], y: e[1], z: e[2] };
    let t4 = |e: &[Term]| Vec4 { x: e[0], y: e[1], z: e[2], w: e[3] };
    let c3 = |e: &[Term]| Rgb { r: e[0], g: e[1], b: e[2] };
    let c4 = |e: &[Term]| Rgba { r: e[0], g: e[1], b: e[2], a: e[3] };
    // ---- the 24 From rows (every one exactly once)
    let mut rows = 0usize;
    tconv!(s, cs, rows, Vec2 (x y) <- Vec3 (x y z));
    tconv!(s, cs, rows, Vec2 (x y) <- Vec4 (x y z w));
    tconv!(s, cs, rows, Vec2 (x y) <- Extent2 (w h));
    tconv!(s, cs, rows, Vec3 (x y z) <- Vec2 (x y));
    tconv!(s, cs, rows, Vec3 (x y z) <- (Vec2 (x y), T));
    tconv!(s, cs, rows, Vec3 (x y z) <- Vec4 (x y z w));
    tconv!(s, cs, rows, Vec3 (x y z) <- Extent3 (w h d));
    tconv!(s, cs, rows, Vec3 (x y z) <- Rgb (r g b));
    tconv!(s, cs, rows, Vec3 (x y z) <- Uvw (u v w));
    tconv!(s, cs, rows, Vec4 (x y z w) <- Vec2 (x y));
    tconv!(s, cs, rows, Vec4 (x y z w) <- Vec3 (x y z));
    tconv!(s, cs, rows, Vec4 (x y z w) <- (Vec3 (x y z), T));
    tconv!(s, cs, rows, Vec4 (x y z w) <- Rgba (r g b a));
    tconv!(s, cs, rows, Extent2 (w h) <- Vec2 (x y));
    tconv!(s, cs, rows, Extent3 (w h d) <- Vec3 (x y z));
    tconv!(s, cs, rows, Extent3 (w h d) <- (Extent2 (w h), T));
    tconv!(s, cs, rows, Rgb (r g b) <- Vec3 (x y z));
    tconv!(s, cs, rows, Rgb (r g b) <- Rgba (r g b a));
    tconv!(s, cs, rows, Rgba (r g b a) <- Vec4 (x y z w));
    tconv!(s, cs, rows, Rgba (r g b a) <- Rgb (r g b));
    tconv!(s, cs, rows, Rgba (r g b a) <- (Rgb (r g b), T));
    tconv!(s, cs, rows, Uv (u v) <- Vec2 (x y));
    tconv!(s, cs, rows, Uvw (u v w) <- Vec3 (x y z));
    tconv!(s, cs, rows, Uvw (u v w) <- (Uv (u v), T));
    if rows != FROM_TABLE.len() { s.rep.machinery_error(format!("sec_equal_patterns: {} conversion rows run, FROM_TABLE has {}", rows, FROM_TABLE.len())); }
    // ---- setters (self positions, then the new value) and swizzles
    let run = |site: &str, n: usize, f: &dyn Fn(&[Term]) -> Vec<Term>, want: &dyn Fn(&[Term]) -> Vec<Term>| eq_run(s, site, n, cs, n, &nul, f, want);
    run("Vec2::with_x", 3, &|e| dv2(&t2(e).with_x(e[2])).to_vec(), &|e| vec![e[2], e[1]]);
    run("Vec2::with_y", 3, &|e| dv2(&t2(e).with_y(e[2])).to_vec(), &|e| vec![e[0], e[2]]);
    run("Vec2::with_z", 3, &|e| dv3(&t2(e).with_z(e[2])).to_vec(), &|e| vec![e[0], e[1], e[2]]);
    run("Vec2::with_w", 3, &|e| dv4(&t2(e).with_w(e[2])).to_vec(), &|e| vec![e[0], e[1], z, e[2]]);
    run("Vec3::with_x", 4, &|e| dv3(&t3(e).with_x(e[3])).to_vec(), &|e| vec![e[3], e[1], e[2]]);
    run("Vec3::with_y", 4, &|e| dv3(&t3(e).with_y(e[3])).to_vec(), &|e| vec![e[0], e[3], e[2]]);
    run("Vec3::with_z", 4, &|e| dv3(&t3(e).with_z(e[3])).to_vec(), &|e| vec![e[0], e[1], e[3]]);
    run("Vec3::with_w", 4, &|e| dv4(&t3(e).with_w(e[3])).to_vec(), &|e| vec![e[0], e[1], e[2], e[3]]);
    run("Vec4::with_x", 5, &|e| dv4(&t4(e).with_x(e[4])).to_vec(), &|e| vec![e[4], e[1], e[2], e[3]]);
    run("Vec4::with_y", 5, &|e| dv4(&t4(e).with_y(e[4])).to_vec(), &|e| vec![e[0], e[4], e[2], e[3]]);
    run("Vec4::with_z", 5, &|e| dv4(&t4(e).with_z(e[4])).to_vec(), &|e| vec![e[0], e[1], e[4], e[3]]);
    run("Vec4::with_w", 5, &|e| dv4(&t4(e).with_w(e[4])).to_vec(), &|e| vec![e[0], e[1], e[2], e[4]]);
    run("Vec2::yx", 2, &|e| dv2(&t2(e).yx()).to_vec(), &|e| vec![e[1], e[0]]);
    run("Vec3::zyx", 3, &|e| dv3(&t3(e).zyx()).to_vec(), &|e| vec![e[2], e[1], e[0]]);
    run("Vec4::wxyz", 4, &|e| dv4(&t4(e).wxyz()).to_vec(), &|e| vec![e[3], e[0], e[1], e[2]]);
    run("Vec4::wzyx", 4, &|e| dv4(&t4(e).wzyx()).to_vec(), &|e| vec![e[3], e[2], e[1], e[0]]);
    run("Vec4::zyxw", 4, &|e| dv4(&t4(e).zyxw()).to_vec(), &|e| vec![e[2], e[1], e[0], e[3]]);
    run("Vec3::xy", 3, &|e| dv2(&t3(e).xy()).to_vec(), &|e| vec![e[0], e[1]]);
    run("Vec4::xy", 4, &|e| dv2(&t4(e).xy()).to_vec(), &|e| vec![e[0], e[1]]);
    run("Vec4::xyz", 4, &|e| dv3(&t4(e).xyz()).to_vec(), &|e| vec![e[0], e[1], e[2]]);
    run("Rgba::rgb", 4, &|e| drgb(c4(e).rgb()).to_vec(), &|e| vec![e[0], e[1], e[2]]);
    // ---- homogeneous constructors (the sec_observable runs give every position its OWN generator: no two equal generators)
    run("Vec4::new_point", 3, &|e| dv4(&Vec4::new_point(e[0], e[1], e[2])).to_vec(), &|e| vec![e[0], e[1], e[2], o]);
    run("Vec4::new_direction", 3, &|e| dv4(&Vec4::new_direction(e[0], e[1], e[2])).to_vec(), &|e| vec![e[0], e[1], e[2], z]);
    run("Vec4::from_point(Vec3)", 3, &|e| dv4(&Vec4::from_point(t3(e))).to_vec(), &|e| vec![e[0], e[1], e[2], o]);
    run("Vec4::from_direction(Vec3)", 3, &|e| dv4(&Vec4::from_direction(t3(e))).to_vec(), &|e| vec![e[0], e[1], e[2], z]);
    run("Vec4::from_point(Vec4)", 4, &|e| dv4(&Vec4::from_point(t4(e))).to_vec(), &|e| vec![e[0], e[1], e[2], o]);
    run("Vec4::from_direction(Vec4)", 4, &|e| dv4(&Vec4::from_direction(t4(e))).to_vec(), &|e| vec![e[0], e[1], e[2], z]);
    run("Vec4::from_point(Vec2)", 2, &|e| dv4(&Vec4::from_point(t2(e))).to_vec(), &|e| vec![e[0], e[1], z, o]);
    run("Vec4::from_direction(Vec2)", 2, &|e| dv4(&Vec4::from_direction(t2(e))).to_vec(), &|e| vec![e[0], e[1], z, z]);
    run("Vec3::new_point_2d", 2, &|e| dv3(&Vec3::new_point_2d(e[0], e[1])).to_vec(), &|e| vec![e[0], e[1], o]);
    run("Vec3::new_direction_2d", 2, &|e| dv3(&Vec3::new_direction_2d(e[0], e[1])).to_vec(), &|e| vec![e[0], e[1], z]);
    run("Vec3::from_point_2d(Vec2)", 2, &|e| dv3(&Vec3::from_point_2d(t2(e))).to_vec(), &|e| vec![e[0], e[1], o]);
    run("Vec3::from_direction_2d(Vec2)", 2, &|e| dv3(&Vec3::from_direction_2d(t2(e))).to_vec(), &|e| vec![e[0], e[1], z]);
    run("Vec3::from_point_2d(Vec3)", 3, &|e| dv3(&Vec3::from_point_2d(t3(e))).to_vec(), &|e| vec![e[0], e[1], o]);
    run("Vec3::from_direction_2d(Vec3)", 3, &|e| dv3(&Vec3::from_direction_2d(t3(e))).to_vec(), &|e| vec![e[0], e[1], z]);
    run("Vec3::from_point_2d(Vec4)", 4, &|e| dv3(&Vec3::from_point_2d(t4(e))).to_vec(), &|e| vec![e[0], e[1], o]);
    run("Vec3::from_direction_2d(Vec4)", 4, &|e| dv3(&Vec3::from_direction_2d(t4(e))).to_vec(), &|e| vec![e[0], e[1], z]);
    // ---- colour constructors, reorderings, arithmetic helpers (structure)
    run("Rgba::new_opaque", 3, &|e| drgba(Rgba::new_opaque(e[0], e[1], e[2])).to_vec(), &|e| vec![e[0], e[1], e[2], fu]);
    run("Rgba::new_transparent", 3, &|e| drgba(Rgba::new_transparent(e[0], e[1], e[2])).to_vec(), &|e| vec![e[0], e[1], e[2], z]);
    run("Rgba::from_opaque(Rgb)", 3, &|e| drgba(Rgba::from_opaque(c3(e))).to_vec(), &|e| vec![e[0], e[1], e[2], fu]);
    run("Rgba::from_transparent(Rgb)", 3, &|e| drgba(Rgba::from_transparent(c3(e))).to_vec(), &|e| vec![e[0], e[1], e[2], z]);
    run("Rgba::from_opaque(Rgba)", 4, &|e| drgba(Rgba::from_opaque(c4(e))).to_vec(), &|e| vec![e[0], e[1], e[2], fu]);
    run("Rgba::from_transparent(Rgba)", 4, &|e| drgba(Rgba::from_transparent(c4(e))).to_vec(), &|e| vec![e[0], e[1], e[2], z]);
    run("Rgba::from_translucent(Rgb)", 4, &|e| drgba(Rgba::from_translucent(c3(e), e[3])).to_vec(), &|e| vec![e[0], e[1], e[2], e[3]]);
    run("Rgba::from_translucent(Rgba)", 5, &|e| drgba(Rgba::from_translucent(c4(e), e[4])).to_vec(), &|e| vec![e[0], e[1], e[2], e[4]]);
    run("Rgba::shuffled_argb", 4, &|e| drgba(c4(e).shuffled_argb()).to_vec(), &|e| vec![e[3], e[0], e[1], e[2]]);
    run("Rgba::shuffled_bgra", 4, &|e| drgba(c4(e).shuffled_bgra()).to_vec(), &|e| vec![e[2], e[1], e[0], e[3]]);
    run("Rgb::shuffled_bgr", 3, &|e| drgb(c3(e).shuffled_bgr()).to_vec(), &|e| vec![e[2], e[1], e[0]]);
    let sub = |c: Term| Term::bin("sub", fu, c);
    run("Rgba::inverted_rgb (term structure)", 4, &|e| drgba(c4(e).inverted_rgb()).to_vec(), &|e| vec![sub(e[0]), sub(e[1]), sub(e[2]), e[3]]);
    run("Rgb::inverted_rgb (term structure)", 3, &|e| drgb(c3(e).inverted_rgb()).to_vec(), &|e| vec![sub(e[0]), sub(e[1]), sub(e[2])]);
    run("Rgba::inverted_rgb twice (term structure)", 4, &|e| drgba(c4(e).inverted_rgb().inverted_rgb()).to_vec(), &|e| vec![sub(sub(e[0])), sub(sub(e[1])), sub(sub(e[2])), e[3]]);
    // average: (r+g+b)/3 as a multiset of exactly the three channels under `add`, over the constant 3 (no simp: structural)
    let avg_shape = |t: Term| -> Vec<Term> { match t.node() { Node::Bin("div", num, den) => { let mut v = num.ac_leaves("add"); v.push(den); v } _ => vec![t] } };
    let avg_want = |e: &[Term]| -> Vec<Term> { let mut v = vec![e[0], e[1], e[2]]; v.sort(); v.push(Term::cst(3)); v };
    {
        let mut st = EqStat::default();
        rgs(4, cs.len(), 4, &mut |t| {
            let e = eq_terms(t, cs); let nt = st.count(t, cs.len());
            let inp = || json!({"elements": jd(&e)});
            chk(s, "Rgba::average_rgb (term structure) on equality patterns", "wrong-routing-on-equal-or-special-elements", &inp, s.call("Rgba::average_rgb", inp, || avg_shape(c4(&e).average_rgb())), &avg_want(&e), nt, 0);
            if t[3] == 0 { chk(s, "Rgb::average_rgb (term structure) on equality patterns", "wrong-routing-on-equal-or-special-elements", &inp, s.call("Rgb::average_rgb", inp, || avg_shape(c3(&e).average_rgb())), &avg_want(&e), nt, 0); }
        });
        st.flush(s);
    }
    // ---- shuffles
    tshuffle!(s, cs, Vec4 (x y z w));
    tshuffle!(s, cs, Rgba (r g b a));
    // ---- matrix size conversions, both layouts: growing (constants 0, 1, 255 for Mat2; Mat3: all partitions of the 9 entries,
    //      thorough: with the constants 0 and 1), shrinking (Mat3: all partitions; Mat4: every pattern over two generators)
    let c01 = [z, o];
    let none: [Term; 0] = [];
    let c3g: &[Term] = if s.thorough() { &c01 } else { &none };
    let g3 = if s.thorough() { 3 } else { 9 };
    tmat!(s, cs, 4, rm, "row", Mat3 3 <- Mat2 2); tmat!(s, cs, 4, cm, "col", Mat3 3 <- Mat2 2);
    tmat!(s, cs, 4, rm, "row", Mat4 4 <- Mat2 2); tmat!(s, cs, 4, cm, "col", Mat4 4 <- Mat2 2);
    tmat!(s, c3g, g3, rm, "row", Mat4 4 <- Mat3 3); tmat!(s, c3g, g3, cm, "col", Mat4 4 <- Mat3 3);
    tmat!(s, c3g, g3, rm, "row", Mat2 2 <- Mat3 3); tmat!(s, c3g, g3, cm, "col", Mat2 2 <- Mat3 3);
    tmat!(s, &none, 2, rm, "row", Mat3 3 <- Mat4 4); tmat!(s, &none, 2, cm, "col", Mat3 3 <- Mat4 4);
    tmat!(s, &none, 2, rm, "row", Mat2 2 <- Mat4 4); tmat!(s, &none, 2, cm, "col", Mat2 2 <- Mat4 4);
    tmat_border!(s, rm, "row", Mat3 3); tmat_border!(s, cm, "col", Mat3 3);
    tmat_border!(s, rm, "row", Mat2 2); tmat_border!(s, cm, "col", Mat2 2);
    s.meta("pattern_counts", json!({"4 positions + constants {0,1,255}": rgs_count(4, 3, 4), "5 positions + constants": rgs_count(5, 3, 5), "8 positions, no constants (Bell(8))": rgs_count(8, 0, 8), "8 positions + constants": rgs_count(8, 3, 8), "9 positions, no constants (Bell(9))": rgs_count(9, 0, 9), "16 positions, two generators": rgs_count(16, 0, 2)}));
}

// =================================================================================================
// 12. (second audit) the routing functions instantiated at machine element types
// =================================================================================================
/// "One run on opaque symbols decides every element type" rests on parametricity, and parametricity is broken by
/// `mem::size_of::<T>()`, `mem::align_of`, `mem::needs_drop` (all callable without any bound): a "SIMD path" for 4-byte
/// lanes, a byte-swap path for 1-byte channels, an in-place path for droppable elements.  `Sym` is 2 bytes, `Term` 4,
/// `X` large, none is droppable.  Here every routing function runs on real element types of size 1, 2, 3, 4, 8, 16, 24
/// and 32 bytes, signed / unsigned / float / wrapping / char / array / heap-owning (non-Copy) ones, on pairwise distinct
/// lane values (floats: incl. -0.0, NaN payloads, infinities, subnormals, compared bit for bit).
/// (`PartialEq + Default` are not needed by the check; they keep it compiling when a bound of that kind is added to a routing function)
trait Lane: Clone + Debug + PartialEq + Default + 'static {
    const NAME: &'static str;
    /// pairwise distinct data for i in 0..32, none of them equal to zero, one or full
    fn lane(i: usize) -> Self;
    /// the same datum (bit for bit for floats)
    fn same(&self, o: &Self) -> bool;
}
fn lane_i128(i: usize, max: i128) -> i128 { if i % 2 == 0 { 2 + 5 * i as i128 } else { max - 3 - 7 * i as i128 } }
macro_rules! lane_int { ($($t:ident)+) => { $(
    impl Lane for $t { const NAME: &'static str = stringify!($t); fn lane(i: usize) -> $t { lane_i128(i, <$t>::MAX as i128) as $t } fn same(&self, o: &Self) -> bool { self == o } }
)+ } }
lane_int!(u8 u16 u32 u64 usize i8 i16 i32 i64 isize);
impl Lane for u128 { const NAME: &'static str = "u128"; fn lane(i: usize) -> u128 { if i % 2 == 0 { 2 + 5 * i as u128 } else { u128::MAX - 3 - 7 * i as u128 } } fn same(&self, o: &Self) -> bool { self == o } }
macro_rules! lane_wrap { ($($t:ident)+) => { $(
    impl Lane for Wrapping<$t> { const NAME: &'static str = concat!("Wrapping<", stringify!($t), ">"); fn lane(i: usize) -> Self { Wrapping(<$t as Lane>::lane(i)) } fn same(&self, o: &Self) -> bool { self == o } }
)+ } }
lane_wrap!(u8 u16 u32 u64 i8 i16 i32 i64);
impl Lane for f32 {
    const NAME: &'static str = "f32";
    fn lane(i: usize) -> f32 { const SP: [u32; 12] = [0x4020_0000, 0x8000_0000, 0x7fc0_0001, 0x7f80_0000, 0x0000_0001, 0xc050_0000, 0x7f7f_ffff, 0xff80_0000, 0xffc1_2345, 0x0001_16c2, 0x3dcc_cccd, 0x0080_0000]; if i < 12 { f32::from_bits(SP[i]) } else { i as f32 * 1.5 + 7.25 } }
    fn same(&self, o: &Self) -> bool { self.to_bits() == o.to_bits() }
}
impl Lane for f64 {
    const NAME: &'static str = "f64";
    fn lane(i: usize) -> f64 { const SP: [u64; 12] = [0x4004_0000_0000_0000, 0x8000_0000_0000_0000, 0x7ff8_0000_0000_0001, 0x7ff0_0000_0000_0000, 1, 0xc00a_0000_0000_0000, 0x7fef_ffff_ffff_ffff, 0xfff0_0000_0000_0000, 0xfff8_1234_5678_9abc, 0x0000_0000_0001_16c2, 0x3fb9_9999_9999_999a, 0x0010_0000_0000_0000]; if i < 12 { f64::from_bits(SP[i]) } else { i as f64 * 1.5 + 7.25 } }
    fn same(&self, o: &Self) -> bool { self.to_bits() == o.to_bits() }
}
impl Lane for char { const NAME: &'static str = "char"; fn lane(i: usize) -> char { char::from_u32(if i % 2 == 0 { 0x61 + i as u32 } else { 0x1F600 + i as u32 }).unwrap() } fn same(&self, o: &Self) -> bool { self == o } }
impl Lane for [u8; 3] { const NAME: &'static str = "[u8; 3]"; fn lane(i: usize) -> [u8; 3] { [i as u8 + 2, 200 - i as u8, 7 * i as u8 + 1] } fn same(&self, o: &Self) -> bool { self == o } }
impl Lane for [u64; 4] { const NAME: &'static str = "[u64; 4]"; fn lane(i: usize) -> [u64; 4] { [i as u64 + 2, u64::MAX - i as u64, 7 * i as u64 + 1, 1 << (i % 60)] } fn same(&self, o: &Self) -> bool { self == o } }
impl Lane for String { const NAME: &'static str = "String"; fn lane(i: usize) -> String { format!("lane{}", i) } fn same(&self, o: &Self) -> bool { self == o } }
impl Lane for Box<u16> { const NAME: &'static str = "Box<u16>"; fn lane(i: usize) -> Box<u16> { Box::new(1000 + i as u16) } fn same(&self, o: &Self) -> bool { self == o } }
/// the numeric ones: reference zero / one / full from std constants
trait LaneNum: Lane + CC + num_traits::One { fn one_ref() -> Self; }
macro_rules! lane_num { ($($t:ty = $one:expr;)+) => { $( impl LaneNum for $t { fn one_ref() -> Self { $one } } )+ } }
lane_num! { u8 = 1; u16 = 1; u32 = 1; u64 = 1; i8 = 1; i16 = 1; i32 = 1; i64 = 1; f32 = 1.0; f64 = 1.0;
    Wrapping<u8> = Wrapping(1); Wrapping<u16> = Wrapping(1); Wrapping<u32> = Wrapping(1); Wrapping<u64> = Wrapping(1);
    Wrapping<i8> = Wrapping(1); Wrapping<i16> = Wrapping(1); Wrapping<i32> = Wrapping(1); Wrapping<i64> = Wrapping(1); }

fn chk_lanes<T: Lane>(s: &Section, site: &str, input: &dyn Fn() -> Value, got: Option<Vec<T>>, want: &[T]) {
    s.eval(true);
    match got {
        None => s.violation(site, "no-result-on-machine-type", json!({"input": input(), "want": jd(&want)})),
        Some(g) => if g.len() != want.len() || !g.iter().zip(want).all(|(a, b)| a.same(b)) { s.violation(site, "wrong-routing-on-machine-type", json!({"input": input(), "got": jd(&g), "want": jd(&want), "size_of_element": std::mem::size_of::<T>(), "needs_drop": std::mem::needs_drop::<T>()})); }
    }
}
use vx::vecs::VecN;
/// one `From` row at element type T: source lanes 1..=N, appended scalar lane 20; `pads`: what must follow the kept lanes
fn lconv<T: Lane, S: VecN<T>, D: VecN<T>>(s: &Section, src_name: &str, pads: &[T], conv: impl FnOnce(S, T) -> D) {
    let src: Vec<T> = (1..=<S as VecN<T>>::N).map(T::lane).collect();
    let mut want: Vec<T> = src.iter().cloned().take(<D as VecN<T>>::N - pads.len()).collect();
    want.extend(pads.iter().cloned());
    let site = format!("From<{}> for {} <{}>", src_name, <D as VecN<T>>::NAME, T::NAME);
    let inp = || json!({"src": jd(&src), "scalar": jd(&T::lane(20))});
    let got = s.call(&site, inp, || <D as VecN<T>>::into_elems(conv(<S as VecN<T>>::from_elems(src.clone()), T::lane(20))));
    chk_lanes(s, &site, &inp, got, &want);
}
fn lcase<T: Lane>(s: &Section, site: &str, f: impl FnOnce() -> Vec<T>, want: Vec<T>) {
    let site = format!("{} <{}>", site, T::NAME);
    let inp = || json!({"lanes": "self = lane(1..), second operand = lane(5..), new value = lane(9), scalar = lane(20)"});
    let got = s.call(&site, inp, f);
    chk_lanes(s, &site, &inp, got, &want);
}
/// functions without any bound on T (work for non-Copy elements)
fn lanes_unbounded<T: Lane>(s: &Section) {
    s.class(&format!("type:{}", T::NAME));
    s.class(&format!("element-size:{}", std::mem::size_of::<T>()));
    if std::mem::needs_drop::<T>() { s.class("droppable-element"); }
    let l = |i: usize| T::lane(i);
    let sc = || vec![T::lane(20)];
    // the 20 From rows without a bound (kind changes, shrinks, appended scalar)
    lconv::<T, Vec3<T>, Vec2<T>>(s, "Vec3", &[], |v, _| Vec2::from(v));
    lconv::<T, Vec4<T>, Vec2<T>>(s, "Vec4", &[], |v, _| Vec2::from(v));
    lconv::<T, Extent2<T>, Vec2<T>>(s, "Extent2", &[], |v, _| Vec2::from(v));
    lconv::<T, Vec2<T>, Vec3<T>>(s, "(Vec2, T)", &sc(), |v, w| Vec3::from((v, w)));
    lconv::<T, Vec4<T>, Vec3<T>>(s, "Vec4", &[], |v, _| Vec3::from(v));
    lconv::<T, Extent3<T>, Vec3<T>>(s, "Extent3", &[], |v, _| Vec3::from(v));
    lconv::<T, Rgb<T>, Vec3<T>>(s, "Rgb", &[], |v, _| Vec3::from(v));
    lconv::<T, Uvw<T>, Vec3<T>>(s, "Uvw", &[], |v, _| Vec3::from(v));
    lconv::<T, Vec3<T>, Vec4<T>>(s, "(Vec3, T)", &sc(), |v, w| Vec4::from((v, w)));
    lconv::<T, Rgba<T>, Vec4<T>>(s, "Rgba", &[], |v, _| Vec4::from(v));
    lconv::<T, Vec2<T>, Extent2<T>>(s, "Vec2", &[], |v, _| Extent2::from(v));
    lconv::<T, Vec3<T>, Extent3<T>>(s, "Vec3", &[], |v, _| Extent3::from(v));
    lconv::<T, Extent2<T>, Extent3<T>>(s, "(Extent2, T)", &sc(), |v, w| Extent3::from((v, w)));
    lconv::<T, Vec3<T>, Rgb<T>>(s, "Vec3", &[], |v, _| Rgb::from(v));
    lconv::<T, Rgba<T>, Rgb<T>>(s, "Rgba", &[], |v, _| Rgb::from(v));
    lconv::<T, Vec4<T>, Rgba<T>>(s, "Vec4", &[], |v, _| Rgba::from(v));
    lconv::<T, Rgb<T>, Rgba<T>>(s, "(Rgb, T)", &sc(), |v, w| Rgba::from((v, w)));
    lconv::<T, Vec2<T>, Uv<T>>(s, "Vec2", &[], |v, _| Uv::from(v));
    lconv::<T, Vec3<T>, Uvw<T>>(s, "Vec3", &[], |v, _| Uvw::from(v));
    lconv::<T, Uv<T>, Uvw<T>>(s, "(Uv, T)", &sc(), |v, w| Uvw::from((v, w)));
    // setters (except Vec2::with_w: T: Zero), swizzles, projections
    let a2 = || Vec2 { x: l(1), y: l(2) };
    let a3 = || Vec3 { x: l(1), y: l(2), z: l(3) };
    let a4 = || Vec4 { x: l(1), y: l(2), z: l(3), w: l(4) };
    let b4 = || Vec4 { x: l(5), y: l(6), z: l(7), w: l(8) };
    let c3 = || Rgb { r: l(1), g: l(2), b: l(3) };
    let c4 = || Rgba { r: l(1), g: l(2), b: l(3), a: l(4) };
    let d4 = || Rgba { r: l(5), g: l(6), b: l(7), a: l(8) };
    lcase(s, "Vec2::with_x", || a2().with_x(l(9)).into_elems(), vec![l(9), l(2)]);
    lcase(s, "Vec2::with_y", || a2().with_y(l(9)).into_elems(), vec![l(1), l(9)]);
    lcase(s, "Vec2::with_z", || a2().with_z(l(9)).into_elems(), vec![l(1), l(2), l(9)]);
    lcase(s, "Vec3::with_x", || a3().with_x(l(9)).into_elems(), vec![l(9), l(2), l(3)]);
    lcase(s, "Vec3::with_y", || a3().with_y(l(9)).into_elems(), vec![l(1), l(9), l(3)]);
    lcase(s, "Vec3::with_z", || a3().with_z(l(9)).into_elems(), vec![l(1), l(2), l(9)]);
    lcase(s, "Vec3::with_w", || a3().with_w(l(9)).into_elems(), vec![l(1), l(2), l(3), l(9)]);
    lcase(s, "Vec4::with_x", || a4().with_x(l(9)).into_elems(), vec![l(9), l(2), l(3), l(4)]);
    lcase(s, "Vec4::with_y", || a4().with_y(l(9)).into_elems(), vec![l(1), l(9), l(3), l(4)]);
    lcase(s, "Vec4::with_z", || a4().with_z(l(9)).into_elems(), vec![l(1), l(2), l(9), l(4)]);
    lcase(s, "Vec4::with_w", || a4().with_w(l(9)).into_elems(), vec![l(1), l(2), l(3), l(9)]);
    lcase(s, "Vec2::yx", || a2().yx().into_elems(), vec![l(2), l(1)]);
    lcase(s, "Vec3::zyx", || a3().zyx().into_elems(), vec![l(3), l(2), l(1)]);
    lcase(s, "Vec4::wxyz", || a4().wxyz().into_elems(), vec![l(4), l(1), l(2), l(3)]);
    lcase(s, "Vec4::wzyx", || a4().wzyx().into_elems(), vec![l(4), l(3), l(2), l(1)]);
    lcase(s, "Vec4::zyxw", || a4().zyxw().into_elems(), vec![l(3), l(2), l(1), l(4)]);
    lcase(s, "Vec3::xy", || a3().xy().into_elems(), vec![l(1), l(2)]);
    lcase(s, "Vec4::xy", || a4().xy().into_elems(), vec![l(1), l(2)]);
    lcase(s, "Vec4::xyz", || a4().xyz().into_elems(), vec![l(1), l(2), l(3)]);
    lcase(s, "Rgba::rgb", || c4().rgb().into_elems(), vec![l(1), l(2), l(3)]);
    // two-operand lane helpers without a Copy bound, reorderings, from_translucent (incl. through Into from other kinds)
    lcase(s, "Vec4::interleave_0011", || Vec4::interleave_0011(a4(), b4()).into_elems(), vec![l(1), l(5), l(2), l(6)]);
    lcase(s, "Vec4::interleave_2233", || Vec4::interleave_2233(a4(), b4()).into_elems(), vec![l(3), l(7), l(4), l(8)]);
    lcase(s, "Vec4::shuffle_lo_hi_0101", || Vec4::shuffle_lo_hi_0101(a4(), b4()).into_elems(), vec![l(1), l(2), l(5), l(6)]);
    lcase(s, "Vec4::shuffle_hi_lo_2323", || Vec4::shuffle_hi_lo_2323(a4(), b4()).into_elems(), vec![l(7), l(8), l(3), l(4)]);
    lcase(s, "Rgba::interleave_0011", || Rgba::interleave_0011(c4(), d4()).into_elems(), vec![l(1), l(5), l(2), l(6)]);
    lcase(s, "Rgba::interleave_2233", || Rgba::interleave_2233(c4(), d4()).into_elems(), vec![l(3), l(7), l(4), l(8)]);
    lcase(s, "Rgba::shuffle_lo_hi_0101", || Rgba::shuffle_lo_hi_0101(c4(), d4()).into_elems(), vec![l(1), l(2), l(5), l(6)]);
    lcase(s, "Rgba::shuffle_hi_lo_2323", || Rgba::shuffle_hi_lo_2323(c4(), d4()).into_elems(), vec![l(7), l(8), l(3), l(4)]);
    lcase(s, "Rgba::shuffled_argb", || c4().shuffled_argb().into_elems(), vec![l(4), l(1), l(2), l(3)]);
    lcase(s, "Rgba::shuffled_bgra", || c4().shuffled_bgra().into_elems(), vec![l(3), l(2), l(1), l(4)]);
    lcase(s, "Rgb::shuffled_bgr", || c3().shuffled_bgr().into_elems(), vec![l(3), l(2), l(1)]);
    lcase(s, "Rgba::from_translucent(Rgb)", || Rgba::from_translucent(c3(), l(20)).into_elems(), vec![l(1), l(2), l(3), l(20)]);
    lcase(s, "Rgba::from_translucent(Rgba)", || Rgba::from_translucent(c4(), l(20)).into_elems(), vec![l(1), l(2), l(3), l(20)]);
    lcase(s, "Rgba::from_translucent(Vec3)", || Rgba::from_translucent(a3(), l(20)).into_elems(), vec![l(1), l(2), l(3), l(20)]);
    lcase(s, "Rgba::from_translucent((r,g,b))", || Rgba::from_translucent((l(1), l(2), l(3)), l(20)).into_elems(), vec![l(1), l(2), l(3), l(20)]);
    lcase(s, "Rgba::from_translucent([r,g,b])", || Rgba::from_translucent([l(1), l(2), l(3)], l(20)).into_elems(), vec![l(1), l(2), l(3), l(20)]);
}
macro_rules! lmat { ($s:expr, $T:ty, $lay:ident, $ls:expr, $Dst:ident $nd:literal <- $Src:ident $ns:literal, $zero:expr, $one:expr) => {{
    let mut a = [[<$T as Lane>::lane(0); $ns]; $ns];
    for i in 0..$ns { for j in 0..$ns { a[i][j] = <$T as Lane>::lane(1 + i * $ns + j); } }
    let site = format!("From<{}> for {} ({}-major) <{}>", stringify!($Src), stringify!($Dst), $ls, <$T as Lane>::NAME);
    let inp = || json!({"src": jd(&a)});
    let got = $s.call(&site, inp, || { let d: $lay::$Dst<$T> = <$lay::$Dst<$T> as From<$lay::$Src<$T>>>::from(<$lay::$Src<$T> as MatIO<$T, $ns>>::build(&a)); <$lay::$Dst<$T> as MatIO<$T, $nd>>::decode(&d).iter().flat_map(|r| r.iter().copied()).collect::<Vec<$T>>() });
    let mut want: Vec<$T> = Vec::new();
    for i in 0..$nd { for j in 0..$nd { want.push(if i < $ns && j < $ns { a[i][j] } else if i == j { $one } else { $zero }); } }
    chk_lanes($s, &site, &inp, got, &want);
}}}
macro_rules! lshuffle { ($s:expr, $T:ty, $V:ident ($x:ident $y:ident $z:ident $w:ident)) => {{
    let s: &Section = $s;
    let vn = stringify!($V);
    let lv = |k: usize| <$T as Lane>::lane(k);
    let (lo, hi) = ($V { $x: lv(1), $y: lv(2), $z: lv(3), $w: lv(4) }, $V { $x: lv(5), $y: lv(6), $z: lv(7), $w: lv(8) });
    let (l, h) = ([lv(1), lv(2), lv(3), lv(4)], [lv(5), lv(6), lv(7), lv(8)]);
    let dec = |v: $V<$T>| vec![v.$x, v.$y, v.$z, v.$w];
    for m in 0..256usize {
        let q = [m & 3, (m >> 2) & 3, (m >> 4) & 3, (m >> 6) & 3];
        let inp = || json!({"lo": jd(&l), "hi": jd(&h), "mask": q});
        let site = format!("{}::shuffle_lo_hi <{}>", vn, <$T as Lane>::NAME);
        chk_lanes(s, &site, &inp, s.call(&site, inp, || dec($V::shuffle_lo_hi(lo, hi, ShuffleMask4::new(q[0], q[1], q[2], q[3])))), &[l[q[0]], l[q[1]], h[q[2]], h[q[3]]]);
        let site = format!("{}::shuffled <{}>", vn, <$T as Lane>::NAME);
        chk_lanes(s, &site, &inp, s.call(&site, inp, || dec(lo.shuffled((q[0], q[1], q[2], q[3])))), &[l[q[0]], l[q[1]], l[q[2]], l[q[3]]]);
    }
    lcase::<$T>(s, &format!("{}::shuffled_0101", vn), || dec(lo.shuffled_0101()), vec![l[0], l[1], l[0], l[1]]);
    lcase::<$T>(s, &format!("{}::shuffled_2323", vn), || dec(lo.shuffled_2323()), vec![l[2], l[3], l[2], l[3]]);
    lcase::<$T>(s, &format!("{}::shuffled_0022", vn), || dec(lo.shuffled_0022()), vec![l[0], l[0], l[2], l[2]]);
    lcase::<$T>(s, &format!("{}::shuffled_1133", vn), || dec(lo.shuffled_1133()), vec![l[1], l[1], l[3], l[3]]);
    lcase::<$T>(s, &format!("{}::shuffled(7) single index", vn), || dec(lo.shuffled(7usize)), vec![l[3]; 4]);
    lcase::<$T>(s, &format!("{}::shuffle_lo_hi([5, MAX, 6, 8]) out-of-range", vn), || dec($V::shuffle_lo_hi(lo, hi, [5usize, usize::MAX, 6, 8])), vec![l[1], l[3], h[2], h[0]]);
}}}
macro_rules! lbcast { ($s:expr, $T:ty, $($V:ident)+) => { $( {
    let v = <$T as Lane>::lane(7);
    lcase::<$T>($s, concat!("From<T> for ", stringify!($V)), || <$V<$T> as From<$T>>::from(v).into_elems(), vec![v; <$V<$T> as VecN<$T>>::N]);
} )+ } }
/// functions with a `T: Copy` bound only, and the bound-free shrinking matrix conversions (decoded through Copy helpers)
macro_rules! lanes_copy { ($s:expr, $($T:ty),+) => { $( {
    let s: &Section = $s;
    lshuffle!(s, $T, Vec4 (x y z w));
    lshuffle!(s, $T, Rgba (r g b a));
    lbcast!(s, $T, Vec2 Vec3 Vec4 Extent2 Extent3 Rgb Rgba Uv Uvw Vec8 Vec16 Vec32 Vec64);
    let (z, o) = (<$T as Lane>::lane(30), <$T as Lane>::lane(31)); // never used by a shrinking conversion
    lmat!(s, $T, rm, "row", Mat3 3 <- Mat4 4, z, o); lmat!(s, $T, cm, "col", Mat3 3 <- Mat4 4, z, o);
    lmat!(s, $T, rm, "row", Mat2 2 <- Mat3 3, z, o); lmat!(s, $T, cm, "col", Mat2 2 <- Mat3 3, z, o);
    lmat!(s, $T, rm, "row", Mat2 2 <- Mat4 4, z, o); lmat!(s, $T, cm, "col", Mat2 2 <- Mat4 4, z, o);
} )+ } }
/// functions with a Zero / One / ColorComponent bound, at the 18 numeric element types
macro_rules! lanes_numeric { ($s:expr, $($T:ty),+) => { $( {
    let s: &Section = $s;
    type T = $T;
    let (z, o, fu) = (<T as CC>::zero_ref(), <T as LaneNum>::one_ref(), <T as CC>::full_ref());
    let l = |i: usize| <T as Lane>::lane(i);
    lconv::<T, Vec2<T>, Vec3<T>>(s, "Vec2", &[z], |v, _| Vec3::from(v));
    lconv::<T, Vec2<T>, Vec4<T>>(s, "Vec2", &[z, z], |v, _| Vec4::from(v));
    lconv::<T, Vec3<T>, Vec4<T>>(s, "Vec3", &[z], |v, _| Vec4::from(v));
    lconv::<T, Rgb<T>, Rgba<T>>(s, "Rgb", &[fu], |v, _| Rgba::from(v));
    let (a2, a3, a4) = (Vec2 { x: l(1), y: l(2) }, Vec3 { x: l(1), y: l(2), z: l(3) }, Vec4 { x: l(1), y: l(2), z: l(3), w: l(4) });
    let (c3, c4) = (Rgb { r: l(1), g: l(2), b: l(3) }, Rgba { r: l(1), g: l(2), b: l(3), a: l(4) });
    lcase::<T>(s, "Vec2::with_w", || dv4(&a2.with_w(l(9))).to_vec(), vec![l(1), l(2), z, l(9)]);
    lcase::<T>(s, "Vec4::new_point", || dv4(&Vec4::new_point(l(1), l(2), l(3))).to_vec(), vec![l(1), l(2), l(3), o]);
    lcase::<T>(s, "Vec4::new_direction", || dv4(&Vec4::new_direction(l(1), l(2), l(3))).to_vec(), vec![l(1), l(2), l(3), z]);
    lcase::<T>(s, "Vec4::from_point(Vec3)", || dv4(&Vec4::from_point(a3)).to_vec(), vec![l(1), l(2), l(3), o]);
    lcase::<T>(s, "Vec4::from_direction(Vec3)", || dv4(&Vec4::from_direction(a3)).to_vec(), vec![l(1), l(2), l(3), z]);
    lcase::<T>(s, "Vec4::from_point(Vec4)", || dv4(&Vec4::from_point(a4)).to_vec(), vec![l(1), l(2), l(3), o]);
    lcase::<T>(s, "Vec4::from_direction(Vec4)", || dv4(&Vec4::from_direction(a4)).to_vec(), vec![l(1), l(2), l(3), z]);
    lcase::<T>(s, "Vec4::from_point(Vec2)", || dv4(&Vec4::from_point(a2)).to_vec(), vec![l(1), l(2), z, o]);
    lcase::<T>(s, "Vec4::from_direction(Vec2)", || dv4(&Vec4::from_direction(a2)).to_vec(), vec![l(1), l(2), z, z]);
    lcase::<T>(s, "Vec4::from_point([x,y,z])", || dv4(&Vec4::from_point([l(1), l(2), l(3)])).to_vec(), vec![l(1), l(2), l(3), o]);
    lcase::<T>(s, "Vec4::from_direction((x,y,z))", || dv4(&Vec4::from_direction((l(1), l(2), l(3)))).to_vec(), vec![l(1), l(2), l(3), z]);
    lcase::<T>(s, "Vec3::new_point_2d", || dv3(&Vec3::new_point_2d(l(1), l(2))).to_vec(), vec![l(1), l(2), o]);
    lcase::<T>(s, "Vec3::new_direction_2d", || dv3(&Vec3::new_direction_2d(l(1), l(2))).to_vec(), vec![l(1), l(2), z]);
    lcase::<T>(s, "Vec3::from_point_2d(Vec2)", || dv3(&Vec3::from_point_2d(a2)).to_vec(), vec![l(1), l(2), o]);
    lcase::<T>(s, "Vec3::from_direction_2d(Vec2)", || dv3(&Vec3::from_direction_2d(a2)).to_vec(), vec![l(1), l(2), z]);
    lcase::<T>(s, "Vec3::from_point_2d(Vec3)", || dv3(&Vec3::from_point_2d(a3)).to_vec(), vec![l(1), l(2), o]);
    lcase::<T>(s, "Vec3::from_direction_2d(Vec4)", || dv3(&Vec3::from_direction_2d(a4)).to_vec(), vec![l(1), l(2), z]);
    lcase::<T>(s, "Rgba::new_opaque", || drgba(Rgba::new_opaque(l(1), l(2), l(3))).to_vec(), vec![l(1), l(2), l(3), fu]);
    lcase::<T>(s, "Rgba::new_transparent", || drgba(Rgba::new_transparent(l(1), l(2), l(3))).to_vec(), vec![l(1), l(2), l(3), z]);
    lcase::<T>(s, "Rgba::from_opaque(Rgb)", || drgba(Rgba::from_opaque(c3)).to_vec(), vec![l(1), l(2), l(3), fu]);
    lcase::<T>(s, "Rgba::from_opaque(Rgba)", || drgba(Rgba::from_opaque(c4)).to_vec(), vec![l(1), l(2), l(3), fu]);
    lcase::<T>(s, "Rgba::from_transparent(Vec3)", || drgba(Rgba::from_transparent(a3)).to_vec(), vec![l(1), l(2), l(3), z]);
    lcase::<T>(s, "Rgb::gray", || drgb(Rgb::gray(l(1))).to_vec(), vec![l(1); 3]);
    lcase::<T>(s, "Rgb::grey", || drgb(Rgb::grey(l(1))).to_vec(), vec![l(1); 3]);
    lcase::<T>(s, "Rgba::gray", || drgba(Rgba::gray(l(1))).to_vec(), vec![l(1), l(1), l(1), fu]);
    lcase::<T>(s, "Rgba::grey", || drgba(Rgba::grey(l(1))).to_vec(), vec![l(1), l(1), l(1), fu]);
    lmat!(s, T, rm, "row", Mat3 3 <- Mat2 2, z, o); lmat!(s, T, cm, "col", Mat3 3 <- Mat2 2, z, o);
    lmat!(s, T, rm, "row", Mat4 4 <- Mat2 2, z, o); lmat!(s, T, cm, "col", Mat4 4 <- Mat2 2, z, o);
    lmat!(s, T, rm, "row", Mat4 4 <- Mat3 3, z, o); lmat!(s, T, cm, "col", Mat4 4 <- Mat3 3, z, o);
} )+ } }
/// the 23 nullary constructors that need no negation, at every numeric element type (unsigned and Wrapping ones included,
/// which `units_concrete` cannot reach because of its Neg bound); zero / one from std constants
fn units_nonneg<T: LaneNum + Copy>(s: &Section) {
    s.class(&format!("unit-constructors:{}", <T as Lane>::NAME));
    let (z, o) = (T::zero_ref(), T::one_ref());
    let b = |bits: &[u8]| -> Vec<T> { bits.iter().map(|&k| if k == 1 { o } else { z }).collect() };
    type V2<T> = Vec2<T>; type V3<T> = Vec3<T>; type V4<T> = Vec4<T>;
    lcase::<T>(s, "Vec2::unit_x", || dv2(&V2::<T>::unit_x()).to_vec(), b(&[1, 0])); lcase::<T>(s, "Vec2::unit_y", || dv2(&V2::<T>::unit_y()).to_vec(), b(&[0, 1]));
    lcase::<T>(s, "Vec2::right", || dv2(&V2::<T>::right()).to_vec(), b(&[1, 0])); lcase::<T>(s, "Vec2::up", || dv2(&V2::<T>::up()).to_vec(), b(&[0, 1]));
    lcase::<T>(s, "Vec3::unit_x", || dv3(&V3::<T>::unit_x()).to_vec(), b(&[1, 0, 0])); lcase::<T>(s, "Vec3::unit_y", || dv3(&V3::<T>::unit_y()).to_vec(), b(&[0, 1, 0])); lcase::<T>(s, "Vec3::unit_z", || dv3(&V3::<T>::unit_z()).to_vec(), b(&[0, 0, 1]));
    lcase::<T>(s, "Vec3::right", || dv3(&V3::<T>::right()).to_vec(), b(&[1, 0, 0])); lcase::<T>(s, "Vec3::up", || dv3(&V3::<T>::up()).to_vec(), b(&[0, 1, 0]));
    lcase::<T>(s, "Vec3::forward_lh", || dv3(&V3::<T>::forward_lh()).to_vec(), b(&[0, 0, 1])); lcase::<T>(s, "Vec3::back_rh", || dv3(&V3::<T>::back_rh()).to_vec(), b(&[0, 0, 1]));
    lcase::<T>(s, "Vec4::unit_x", || dv4(&V4::<T>::unit_x()).to_vec(), b(&[1, 0, 0, 0])); lcase::<T>(s, "Vec4::unit_y", || dv4(&V4::<T>::unit_y()).to_vec(), b(&[0, 1, 0, 0]));
    lcase::<T>(s, "Vec4::unit_z", || dv4(&V4::<T>::unit_z()).to_vec(), b(&[0, 0, 1, 0])); lcase::<T>(s, "Vec4::unit_w", || dv4(&V4::<T>::unit_w()).to_vec(), b(&[0, 0, 0, 1]));
    lcase::<T>(s, "Vec4::right", || dv4(&V4::<T>::right()).to_vec(), b(&[1, 0, 0, 0])); lcase::<T>(s, "Vec4::up", || dv4(&V4::<T>::up()).to_vec(), b(&[0, 1, 0, 0]));
    lcase::<T>(s, "Vec4::forward_lh", || dv4(&V4::<T>::forward_lh()).to_vec(), b(&[0, 0, 1, 0])); lcase::<T>(s, "Vec4::back_rh", || dv4(&V4::<T>::back_rh()).to_vec(), b(&[0, 0, 1, 0]));
    lcase::<T>(s, "Vec4::unit_x_point", || dv4(&V4::<T>::unit_x_point()).to_vec(), b(&[1, 0, 0, 1])); lcase::<T>(s, "Vec4::unit_y_point", || dv4(&V4::<T>::unit_y_point()).to_vec(), b(&[0, 1, 0, 1]));
    lcase::<T>(s, "Vec4::unit_z_point", || dv4(&V4::<T>::unit_z_point()).to_vec(), b(&[0, 0, 1, 1]));
    lcase::<T>(s, "Vec4::right_point", || dv4(&V4::<T>::right_point()).to_vec(), b(&[1, 0, 0, 1])); lcase::<T>(s, "Vec4::up_point", || dv4(&V4::<T>::up_point()).to_vec(), b(&[0, 1, 0, 1]));
    lcase::<T>(s, "Vec4::forward_point_lh", || dv4(&V4::<T>::forward_point_lh()).to_vec(), b(&[0, 0, 1, 1])); lcase::<T>(s, "Vec4::back_point_rh", || dv4(&V4::<T>::back_point_rh()).to_vec(), b(&[0, 0, 1, 1]));
}
fn sec_machine_types(s: &Section) {
    s.require_classes(&["type:u8", "type:u16", "type:u32", "type:u64", "type:u128", "type:usize", "type:i8", "type:i16", "type:i32", "type:i64", "type:isize", "type:f32", "type:f64", "type:char",
        "type:[u8; 3]", "type:[u64; 4]", "type:String", "type:Box<u16>", "type:Wrapping<u8>", "type:Wrapping<i64>",
        "element-size:1", "element-size:2", "element-size:3", "element-size:4", "element-size:8", "element-size:16", "element-size:24", "element-size:32", "droppable-element"]);
    lanes_unbounded::<u8>(s); lanes_unbounded::<u16>(s); lanes_unbounded::<u32>(s); lanes_unbounded::<u64>(s); lanes_unbounded::<u128>(s); lanes_unbounded::<usize>(s);
    lanes_unbounded::<i8>(s); lanes_unbounded::<i16>(s); lanes_unbounded::<i32>(s); lanes_unbounded::<i64>(s); lanes_unbounded::<isize>(s);
    lanes_unbounded::<f32>(s); lanes_unbounded::<f64>(s); lanes_unbounded::<char>(s); lanes_unbounded::<[u8; 3]>(s); lanes_unbounded::<[u64; 4]>(s);
    lanes_unbounded::<String>(s); lanes_unbounded::<Box<u16>>(s);
    lanes_unbounded::<Wrapping<u8>>(s); lanes_unbounded::<Wrapping<u16>>(s); lanes_unbounded::<Wrapping<u32>>(s); lanes_unbounded::<Wrapping<u64>>(s);
    lanes_unbounded::<Wrapping<i8>>(s); lanes_unbounded::<Wrapping<i16>>(s); lanes_unbounded::<Wrapping<i32>>(s); lanes_unbounded::<Wrapping<i64>>(s);
    lanes_copy!(s, u8, u16, u32, u64, u128, usize, i8, i16, i32, i64, isize, f32, f64, char, [u8; 3], [u64; 4]);
    lanes_copy!(s, Wrapping<u8>, Wrapping<u16>, Wrapping<u32>, Wrapping<u64>, Wrapping<i8>, Wrapping<i16>, Wrapping<i32>, Wrapping<i64>);
    lanes_numeric!(s, u8, u16, u32, u64, i8, i16, i32, i64, f32, f64);
    lanes_numeric!(s, Wrapping<u8>, Wrapping<u16>, Wrapping<u32>, Wrapping<u64>, Wrapping<i8>, Wrapping<i16>, Wrapping<i32>, Wrapping<i64>);
    units_nonneg::<u8>(s); units_nonneg::<u16>(s); units_nonneg::<u32>(s); units_nonneg::<u64>(s); units_nonneg::<i8>(s); units_nonneg::<i16>(s); units_nonneg::<i32>(s); units_nonneg::<i64>(s); units_nonneg::<f32>(s); units_nonneg::<f64>(s);
    units_nonneg::<Wrapping<u8>>(s); units_nonneg::<Wrapping<u16>>(s); units_nonneg::<Wrapping<u32>>(s); units_nonneg::<Wrapping<u64>>(s); units_nonneg::<Wrapping<i8>>(s); units_nonneg::<Wrapping<i16>>(s); units_nonneg::<Wrapping<i32>>(s); units_nonneg::<Wrapping<i64>>(s);
    // the lane tables themselves: pairwise distinct, none of them a padding value
    fn distinct<T: Lane>(s: &Section, pads: &[T]) { for i in 0..32 { for j in 0..i { if T::lane(i).same(&T::lane(j)) { s.rep.machinery_error(format!("Lane<{}>: lanes {} and {} coincide", T::NAME, i, j)); } } for p in pads { if T::lane(i).same(p) { s.rep.machinery_error(format!("Lane<{}>: lane {} equals a padding value", T::NAME, i)); } } } }
    macro_rules! dn { ($($t:ty),+) => { $( distinct::<$t>(s, &[<$t as CC>::zero_ref(), <$t as LaneNum>::one_ref(), <$t as CC>::full_ref()]); )+ } }
    dn!(u8, u16, u32, u64, i8, i16, i32, i64, f32, f64, Wrapping<u8>, Wrapping<u16>, Wrapping<u32>, Wrapping<u64>, Wrapping<i8>, Wrapping<i16>, Wrapping<i32>, Wrapping<i64>);
    distinct::<u128>(s, &[]); distinct::<usize>(s, &[]); distinct::<isize>(s, &[]); distinct::<char>(s, &[]); distinct::<[u8; 3]>(s, &[]); distinct::<[u64; 4]>(s, &[]); distinct::<String>(s, &[]); distinct::<Box<u16>>(s, &[]);
}

// =================================================================================================
// 13. (second audit) per-type colour helpers on special values x equal-lane patterns
// =================================================================================================
/// `ColorComponent` is the one place where vek dispatches on the element type (18 hand-listed impls), so a slip can
/// sit in one type only and be keyed on a value of that type.  The existing per-type alphabets of the wide integers
/// are {0,1,2,mid,MAX-1,MAX} plus four fixed values.  Here every integer type gets all powers of two and their
/// neighbours (2^k-1, 2^k, 2^k+1, MAX-2^k, and the negative ones for signed types), byte boundaries included, in
/// every channel position and in every equal-lane pattern (v,f,f'), (f,v,f'), (f,f',v), (v,v,f), (v,f,v), (f,v,v), (v,v,v).
fn colour_special_values<T: CC>(s: &Section) {
    let tn = T::NAME;
    s.class(&format!("type:{}", tn));
    let (full, zero) = (T::full_ref(), T::zero_ref());
    let fx = T::fixed();
    let sp = T::special_values();
    let inv_ok = T::special_values_invertible();
    s.class_n("special-value", sp.len() as u64);
    for &v in &sp {
        let pats: [[T; 3]; 7] = [[v, fx[1], fx[2]], [fx[0], v, fx[2]], [fx[0], fx[1], v], [v, v, fx[2]], [v, fx[1], v], [fx[0], v, v], [v, v, v]];
        for (pi, p) in pats.iter().enumerate() {
            let (r, g, b) = (p[0], p[1], p[2]);
            let wt = v.weight();
            let inp = || json!({"r": jd(&r), "g": jd(&g), "b": jd(&b), "special": jd(&v)});
            let c3 = Rgb { r, g, b };
            let site = |f: &str| format!("Rgba<{}>::{}", tn, f);
            chk(s, &site("new_opaque"), "wrong-value-on-special-value", &inp, s.call("new_opaque", inp, || drgba(Rgba::new_opaque(r, g, b))), &[r, g, b, full], true, wt);
            chk(s, &site("new_transparent"), "wrong-value-on-special-value", &inp, s.call("new_transparent", inp, || drgba(Rgba::new_transparent(r, g, b))), &[r, g, b, zero], true, wt);
            chk(s, &site("from_opaque"), "wrong-value-on-special-value", &inp, s.call("from_opaque", inp, || drgba(Rgba::from_opaque(c3))), &[r, g, b, full], true, wt);
            chk(s, &site("from_transparent"), "wrong-value-on-special-value", &inp, s.call("from_transparent", inp, || drgba(Rgba::from_transparent(c3))), &[r, g, b, zero], true, wt);
            chk(s, &format!("From<Rgb> for Rgba <{}>", tn), "wrong-value-on-special-value", &inp, s.call("From<Rgb>", inp, || drgba(Rgba::from(c3))), &[r, g, b, full], true, wt);
            chk(s, &site("from_translucent"), "wrong-value-on-special-value", &inp, s.call("from_translucent", inp, || drgba(Rgba::from_translucent(c3, v))), &[r, g, b, v], true, wt);
            if pi == 6 {
                chk(s, &format!("Rgb<{}>::gray", tn), "wrong-value-on-special-value", &inp, s.call("gray", inp, || drgb(Rgb::gray(v))), &[v, v, v], true, wt);
                chk(s, &format!("Rgb<{}>::grey", tn), "wrong-value-on-special-value", &inp, s.call("grey", inp, || drgb(Rgb::grey(v))), &[v, v, v], true, wt);
                chk(s, &format!("Rgba<{}>::gray", tn), "wrong-value-on-special-value", &inp, s.call("gray", inp, || drgba(Rgba::gray(v))), &[v, v, v, full], true, wt);
                chk(s, &format!("Rgba<{}>::grey", tn), "wrong-value-on-special-value", &inp, s.call("grey", inp, || drgba(Rgba::grey(v))), &[v, v, v, full], true, wt);
            }
            if inv_ok.contains(&v) {
                // the other channels are fixed in-range values: full - c is defined for all three
                let want = [r.inv_ref(), g.inv_ref(), b.inv_ref()];
                for &a in &[v, fx[3]] {
                    let got = s.call("inverted_rgb", inp, || { let i = Rgba { r, g, b, a }.inverted_rgb(); (drgba(i), drgba(i.inverted_rgb())) });
                    s.eval(true);
                    if let Some((g1, g2)) = got {
                        if g1 != [want[0], want[1], want[2], a] { s.violation_w(&site("inverted_rgb"), "wrong-value-on-special-value", json!({"input": inp(), "alpha": jd(&a), "got": jd(&g1), "want": jd(&want)}), wt); }
                        if g2 != [r, g, b, a] { s.violation_w(&site("inverted_rgb"), "not-an-involution-on-special-value", json!({"input": inp(), "alpha": jd(&a), "inverted_twice": jd(&g2)}), wt); }
                    }
                }
                let got = s.call("inverted_rgb", inp, || { let i = c3.inverted_rgb(); (drgb(i), drgb(i.inverted_rgb())) });
                s.eval(true);
                if let Some((g1, g2)) = got {
                    if g1 != want { s.violation_w(&format!("Rgb<{}>::inverted_rgb", tn), "wrong-value-on-special-value", json!({"input": inp(), "got": jd(&g1), "want": jd(&want)}), wt); }
                    if g2 != [r, g, b] { s.violation_w(&format!("Rgb<{}>::inverted_rgb", tn), "not-an-involution-on-special-value", json!({"input": inp(), "inverted_twice": jd(&g2)}), wt); }
                }
            }
        }
    }
}
/// average_rgb on the special values (types on which it can be called), small fixed companions so that most sums are representable
fn colour_special_average<T: Avg>(s: &Section) {
    let tn = T::NAME;
    s.class(&format!("type:{}", tn));
    let small = [T::from(0u8), T::from(1u8), T::from(2u8), T::from(7u8)];
    let sp = T::special_values();
    for &v in &sp { for &p in &small { for &q in &small {
        for (r, g, b) in [(v, p, q), (p, v, q), (p, q, v)] {
            if !T::callable(r, g, b) { s.class("sum-not-representable (not called)"); continue; }
            s.class("sum-representable");
            let inp = || json!({"r": jd(&r), "g": jd(&g), "b": jd(&b)});
            s.eval(true);
            if let Some(got) = s.call("average_rgb", inp, || Rgb { r, g, b }.average_rgb()) { if let Some(w) = T::verdict(r, g, b, got) { s.violation_w(&format!("Rgb<{}>::average_rgb", tn), "not-sum-over-3-on-special-value", json!({"input": inp(), "got": jd(&got), "want": w}), v.weight()); } }
            s.eval(true);
            if let Some(got) = s.call("average_rgb", inp, || Rgba { r, g, b, a: v }.average_rgb()) { if let Some(w) = T::verdict(r, g, b, got) { s.violation_w(&format!("Rgba<{}>::average_rgb", tn), "not-sum-over-3-on-special-value", json!({"input": inp(), "got": jd(&got), "want": w}), v.weight()); } }
        }
    } } }
}
/// float channels: the constructors and gray/grey must transport every datum bit for bit (NaN payload, -0.0, subnormals, infinities)
fn colour_float_transport<T: FloatCC>(s: &Section) {
    let tn = T::NAME;
    s.class(&format!("type:{}", tn));
    let (full, zero) = (T::full_ref(), T::zero_ref());
    let fx = T::fixed();
    let mut vals = T::specials(); vals.extend(T::general(false).into_iter().step_by(17));
    let eq = |a: &[T], b: &[T]| a.len() == b.len() && a.iter().zip(b).all(|(x, y)| x.same(*y));
    for &v in &vals {
        s.class("float-datum");
        for p in [[v, fx[1], fx[2]], [fx[0], v, fx[2]], [fx[0], fx[1], v], [v, v, v]] {
            let (r, g, b) = (p[0], p[1], p[2]);
            let inp = || json!({"r": jd(&r), "g": jd(&g), "b": jd(&b)});
            let c3 = Rgb { r, g, b };
            let one = |name: &str, got: Option<[T; 4]>, want: [T; 4]| { s.eval(true); if let Some(g4) = got { if !eq(&g4, &want) { s.violation_w(&format!("Rgba<{}>::{}", tn, name), "datum-not-transported-bit-for-bit", json!({"input": inp(), "got": jd(&g4), "want": jd(&want)}), v.weight()); } } };
            one("new_opaque", s.call("new_opaque", inp, || drgba(Rgba::new_opaque(r, g, b))), [r, g, b, full]);
            one("new_transparent", s.call("new_transparent", inp, || drgba(Rgba::new_transparent(r, g, b))), [r, g, b, zero]);
            one("from_opaque", s.call("from_opaque", inp, || drgba(Rgba::from_opaque(c3))), [r, g, b, full]);
            one("from_transparent", s.call("from_transparent", inp, || drgba(Rgba::from_transparent(c3))), [r, g, b, zero]);
            one("from_translucent", s.call("from_translucent", inp, || drgba(Rgba::from_translucent(c3, v))), [r, g, b, v]);
            one("gray", s.call("gray", inp, || drgba(Rgba::gray(v))), [v, v, v, full]);
            one("grey", s.call("grey", inp, || drgba(Rgba::grey(v))), [v, v, v, full]);
            s.eval(true);
            if let Some(g3) = s.call("gray", inp, || (drgb(Rgb::gray(v)), drgb(Rgb::grey(v)))) { if !eq(&g3.0, &[v, v, v]) || !eq(&g3.1, &[v, v, v]) { s.violation_w(&format!("Rgb<{}>::gray", tn), "datum-not-transported-bit-for-bit", json!({"input": inp(), "got": jd(&g3)}), v.weight()); } }
        }
    }
}

fn main() {
    let rep = Report::start("C19", "exploration");
    rep.section("From impls between vector kinds and sizes (Sym routing)",
        "every `From` impl between Vec2/3/4, Extent2/3, Rgb(a), Uv(w) found in src/vec.rs (24 rows of FROM_TABLE, each exercised exactly once) plus `From<T>` broadcast for all 13 vector types, run on pairwise distinct opaque symbols built by struct literal, decoded by field access, against the routing rule of the row (keep order; drop trailing; append Zero / the supplied scalar / full() alpha); one run per impl is the most general input (the impls are parametric in T); non-trivial: all",
        true, true, sec_conversions);
    rep.section("with_* setters and named swizzles (Sym routing)",
        "each of Vec2/3/4::with_x/y/z/w (incl. the growing Vec2::with_z, Vec2::with_w (z = Zero), Vec3::with_w), yx, zyx, wxyz, wzyx, zyxw, xy, xyz, Rgba::rgb run once on distinct symbols; every result position compared; non-trivial: all",
        true, true, sec_swizzles);
    rep.section("homogeneous point/direction constructors (Sym routing)",
        "new_point/new_direction/from_point/from_direction (Vec4) and the *_2d forms (Vec3) on distinct symbols, from_* also through Into from Vec2/Vec3/Vec4 arguments: last coordinate One for points, Zero for directions, other coordinates in order; non-trivial: all",
        true, true, sec_homogeneous);
    rep.section("unit vectors and deprecated direction names (exact X)",
        "all 40 nullary constructors unit_x/y/z/w, unit_*_point, left/right/up/down/forward_*/back_* and *_point of Vec2/3/4 on the exact rational type against the coordinates in their doc comments; non-trivial: all",
        true, true, sec_units);
    rep.section("matrix size conversions (Sym routing)",
        "the 6 `From` impls between Mat2/3/4 in both layouts (12 runs) on distinct symbols, fields decoded directly: growing copies the source into the upper-left block and pads with identity (One on the diagonal, Zero elsewhere), shrinking keeps the upper-left block; non-trivial: all",
        true, true, sec_matconv);
    let extra = if rep.thorough() { 4 } else { 2 };
    rep.section("embedding commutes with multiplication (exact X, simplex lattice)",
        "for (n,K) in {(2,3),(2,4),(3,4)} and both layouts, all points of L(n^2+n[+1], D) (matrix entries, vector entries and, where a `(VecN, T)` conversion exists, the appended scalar w = small non-negative integers, sum <= D), D = measured degree 2 + 2 (quick) / + 4 (thorough): MatK::from(M)*VecK::from(v) == VecK::from(M*v), the row-vector form, the point forms with from_point / from_point_2d (last coordinate stays 1, for (2,4) z stays 0), and the scalar forms with VecK::from((v,w)) (w kept), and the direction forms with from_direction / from_direction_2d (last coordinate stays 0); each compared real-vs-real (commutation) and against mvec/vmat over arrays padded accordingly; in addition, beyond what the degree argument needs, the full cube of signed entries {-2,1}^(n^2+n[+1]) (thorough {-3,-1,2}^..) so that negative and mixed-sign matrices, vectors and scalars are run as such; non-trivial: M and v non-zero",
        true, true, |s| sec_commute(s, 2 + extra));
    rep.section("ShuffleMask4 construction",
        "all index 4-tuples over {0..7} u {usize::MAX-3..usize::MAX} (12^4; thorough: 30^4 incl. 8..15, 2^63+k, 2^32+1): new(a,b,c,d).to_indices() == indices mod 4, new(a,b,c,d) == new(a%4,..), From<tuple> and From<array> agree with new; the 256 canonical masks pairwise unequal; From<usize> == new(m,m,m,m); non-trivial: some index >= 4 (all for the inequality and From<usize> parts)",
        true, false, sec_mask);
    rep.section("4-lane shuffles, Vec4 and Rgba (Sym routing)",
        "for Vec4 and Rgba on 8 distinct symbols: all 256 masks from ShuffleMask4::new x {shuffle_lo_hi(lo,hi,mask) == (lo[a],lo[b],hi[c],hi[d]), shuffled(mask)}; every tuple/array mask over the index alphabet with an index >= 4 (taken mod 4); single-index masks; interleave_0011/2233, shuffle_lo_hi_0101, shuffle_hi_lo_2323, shuffled_0101/2323/0022/1133 against the lane diagrams in their doc comments (the 256-mask and lane-diagram parts decide all inputs by parametricity; the out-of-range part is bounded by the index alphabet, hence not flagged complete); non-trivial: mask != (0,1,2,3)",
        true, false, sec_shuffles);
    rep.section("colour: full() and alpha constructors, every ColorComponent type",
        "for each of the 18 ColorComponent types (8 integer widths, their Wrapping<_>, f32, f64; macro over the types): full() == MAX (ints) / 1 (floats) from std constants; new_opaque/new_transparent/from_opaque/from_transparent/From<Rgb> for Rgba over the full cube of the boundary alphabet {0,1,2,mid,MAX-1,MAX} (floats {0,1/256,1/2,255/256,1}; Wrapping signed also MIN,-1), from_translucent over alphabet^4; alpha = full / zero / the given opacity, r,g,b in order; non-trivial: r,g,b pairwise distinct",
        true, false, |s| { s.require_classes(&CC_TYPES); for_all_cc!(colour_ctors, s); });
    rep.section("colour: named colours and gray/grey, every ColorComponent type",
        "for each of the 18 types, Rgb and Rgba: black/white/red/green/blue/cyan/magenta/yellow against a table of channel bits (full / zero; alpha full), gray(v) and grey(v) == (v,v,v[,full]) for every sweep value v (all values in [0,MAX] for 8-bit types, all 256 for Wrapping 8-bit, boundary alphabet for wider ints, k/256 for floats); non-trivial: named colours all; gray: v not in {0, full}",
        true, false, |s| { s.require_classes(&CC_TYPES); for_all_cc!(colour_named, s); });
    rep.section("colour: inverted_rgb, every ColorComponent type",
        "for each of the 18 types, Rgb and Rgba: every sweep value in each channel position r,g,b and alpha against fixed other channels (8-bit: every value of the colour range [0,full], i.e. all 256 for u8, 128 for i8; Wrapping<u8>/Wrapping<i8>: all 256 bit patterns; wider ints {0,1,2,mid,MAX-1,MAX} (Wrapping signed also MIN, MIN+1, -2, -1), thorough: all 16-bit values; floats k/256, thorough k/4096) plus the full 4-cube of the boundary alphabet: result channel == full - c computed in i128 (truncated for Wrapping) / exact rationals, alpha unchanged, inverted twice == input; plain signed ints are only given channels in [0, full] (outside it the subtraction overflows, which the property does not cover); non-trivial: not r == g == b",
        true, false, |s| { s.require_classes(&CC_TYPES); s.require_classes(&["sweep-r", "sweep-g", "sweep-b", "sweep-alpha", "boundary-product", "in-colour-range", "outside-colour-range (Wrapping types only)"]); for_all_cc!(colour_inverted, s); });
    rep.section("colour: average_rgb where r+g+b is representable",
        "for each ColorComponent type on which average_rgb can be called (needs From<u8>: u8,u16,u32,u64,i16,i32,i64,f32,f64 -- not i8, not Wrapping<_>), Rgb and Rgba (3 alphas, ignored): the cube of in-range boundary values, the first 12 (thorough 40) sweep values, the fixed channel values and, for the plain signed integer types, ten negative values (-1,-2,-4,-5,-7, MIN/3, MIN/3+1, MIN/2, MIN+1, MIN: (r+g+b)/3 truncates towards zero); triples whose sum (or partial sum) is not representable are counted and not called (overflow panics are outside the property); ints: == (r+g+b)/3 in i128, truncating; floats: inputs are dyadic so r+g+b is exact and the result must be the correctly rounded quotient (|got - s/3| <= ulp/2, exact rational test); non-trivial: not r == g == b",
        true, false, |s| { s.require_classes(&AVG_TYPES); s.require_classes(&["sum-representable", "sum-not-representable (not called)", "negative-channel (plain signed ints)"]);
            colour_average::<u8>(s); colour_average::<u16>(s); colour_average::<u32>(s); colour_average::<u64>(s); colour_average::<i16>(s); colour_average::<i32>(s); colour_average::<i64>(s); colour_average::<f32>(s); colour_average::<f64>(s); });
    rep.section("colour: ARGB/BGRA/BGR reorderings (Sym routing)",
        "shuffled_argb == (a,r,g,b), shuffled_bgra == (b,g,r,a), shuffled_bgr == (b,g,r) on distinct symbols; non-trivial: all",
        true, true, sec_reorder);
    // ---------------------------------------------------------------- sections added by the clause-by-clause audit
    rep.section("colour: inverted_rgb and average_rgb on general floats (f32, f64)",
        "f32 and f64, Rgb and Rgba. inverted_rgb: each channel position r,g,b,alpha swept (others fixed) over k/255 for k = 0..255, decimal fractions (0.1, 0.2, 0.3, 0.7, 0.9, 1/3, 2/3), HDR values (1.5, 2.75, 1e3, 2^24), negative values, tiny values, and the edge values -0, MIN_POSITIVE, the smallest subnormal (both signs), eps, eps/2, 1-eps/2, 1+eps, 2-eps, +-MAX, +-inf, NaN (thorough: also k/1000, k/1023, 1+k/7, -k/11), plus a 10^4 product mixing ordinary, HDR, negative and special values in all four positions: every result channel must be the correctly rounded 1 - c (one IEEE subtraction in the type, bit for bit; NaN for NaN), alpha the same datum bit for bit, the second inversion again the correctly rounded complement of the first, and for moderate inputs the twice-inverted value within (ulp(1-c)+ulp(result))/2 of the input (derived bound; exact involution is asserted in the dyadic section above). average_rgb: the cube of 24-bit-significand values k/255 (step 5; thorough step 2), decimal fractions, HDR and negative values, 2 alphas: |got - (r+g+b)/3| <= (4u + 2^-51)(|r|+|g|+|b|)/3 with the exact sum formed in f64 and proved exact by TwoSum; non-trivial: inverted: all; average: not r == g == b",
        true, false, |s| { s.require_classes(&["type:f32", "type:f64", "float-general", "float-special", "float-mixed-product", "float-sum-exact-in-type", "float-sum-rounded-in-type", "float-negative-channel", "float-above-full"]);
            colour_inverted_float::<f32>(s); colour_inverted_float::<f64>(s); colour_average_float::<f32>(s); colour_average_float::<f64>(s); });
    if rep.thorough() {
        rep.section("colour: average_rgb on u8, all 2^24 channel triples (thorough only)",
            "every (r,g,b) in u8^3, Rgb and Rgba (alpha = 255 - b): triples with r+g or r+g+b above 255 are counted and not called (the addition overflows: outside the property); all others must give (r+g+b)/3 truncated, computed in u32; decides average_rgb on u8 completely; non-trivial: not r == g == b",
            true, false, |s| { s.require_classes(&["u8-exhaustive: sum-representable", "u8-exhaustive: sum-not-representable (not called)"]); colour_average_u8_exhaustive(s); });
    }
    rep.section("parametricity premise: bounded functions on observable elements (free term algebra)",
        "every anchored function whose bound on T is Zero, One or ColorComponent (so that it could test is_zero() or add / multiply elements, which a run on pairwise distinct opaque symbols cannot see): the zero-padding From impls, Vec2::with_w, new/from_point, new/from_direction and their _2d forms (from_* through Vec2, Vec3 and Vec4 arguments), From<Rgb> for Rgba, new_opaque/new_transparent/from_opaque/from_transparent, gray/grey, and the growing Mat2->Mat3, Mat2->Mat4, Mat3->Mat4 conversions in both layouts, run on the free term algebra for EVERY assignment of each element position to {its own generator, the constant 0, the constant 1, the constant 255 = full()} (4^n cases, n <= 4; matrices 4^4, Mat3->Mat4 3^9 without 255, thorough 4^9): the result must be the plain routing (compared modulo the neutral-element laws x+0 = x, 1*x = x, 0*x = 0, so that only a semantic difference counts); inverted_rgb and average_rgb are checked structurally on the same inputs: channels literally full() - c with alpha untouched, and (r+g+b)/3 as a sum of exactly the three channels (any association) divided by the constant 3; non-trivial: some position holds a constant",
        true, true, sec_observable);
    rep.section("generic Into<..> argument forms of the colour and homogeneous constructors (Sym routing)",
        "from_opaque / from_transparent / from_translucent called with a Vec3, an Rgba (its alpha is dropped and then replaced), a tuple, an array and a scalar (broadcast); Vec4::from_point / from_direction with Extent3, Rgb, Uvw, tuple, array, (Vec2, T) and scalar arguments; Vec3::from_point_2d / from_direction_2d with Extent2, tuple, array and scalar arguments; distinct opaque symbols, every result position compared; non-trivial: all",
        true, true, sec_into_forms);
    rep.section("conversion chains, round trips and setter / swizzle sequences (Sym routing)",
        "call sequences on distinct opaque symbols: growing chains Vec2->Vec3->Vec4 (zero and scalar padding, with_z.with_w), shrink-after-grow == identity, grow-after-shrink == truncate-then-pad, kind round trips Vec<->Extent, Vec3<->Rgb, Vec3<->Uvw, Vec4<->Rgba in both orders, chains across three kinds, sequences of with_* setters and swizzles acting on the result of the previous call (a repeated setter overwrites, wxyz four times is the identity), ARGB/BGRA/BGR reorderings composed; matrices in both layouts: Mat4::from(Mat3::from(m2)) == Mat4::from(m2) == block + identity, Mat2::from(Mat3::from(m4)) == Mat2::from(m4), shrink-after-grow == identity for (2,3),(2,4),(3,4), grow-after-shrink == upper-left block + identity; non-trivial: all",
        true, true, sec_chains);
    rep.section("shuffle call sequences, Vec4 and Rgba (Sym routing)",
        "for Vec4 and Rgba on 8 distinct symbols, all 256 x 256 ordered pairs of masks (first given as a tuple, second as an array / a ShuffleMask4): v.shuffled(p).shuffled(q) == (v[p[q[i]]])_i and shuffle_lo_hi(lo.shuffled(p), hi.shuffled(p), q) == (lo[p[q0]], lo[p[q1]], hi[p[q2]], hi[p[q3]]); the eight fixed helpers applied to already shuffled operands and, for the two-operand ones, with the operands swapped; non-trivial: not both masks (0,1,2,3)",
        true, true, sec_shuffle_seq);
    rep.section("unit vectors and deprecated direction names on machine element types",
        "the same 40 nullary constructors as above, instantiated at i8, i16, i32, i64, f32 and f64 and compared with the doc-comment coordinates converted from i8 (for floats -0.0 == 0.0 is accepted: the property fixes values, not the sign of zero); non-trivial: all",
        true, true, |s| { s.require_classes(&["type:i8", "type:i16", "type:i32", "type:i64", "type:f32", "type:f64"]);
            units_concrete::<i8>(s, "i8"); units_concrete::<i16>(s, "i16"); units_concrete::<i32>(s, "i32"); units_concrete::<i64>(s, "i64"); units_concrete::<f32>(s, "f32"); units_concrete::<f64>(s, "f64"); });
    // ---------------------------------------------------------------- sections added by the second (adversarial) audit
    rep.section("routing on equality patterns and special elements (free term algebra, shared generators)",
        "every routing function of the property -- the 24 From rows, the 12 with_* setters, the 9 swizzles / projections, the 16 homogeneous constructors, the colour constructors (new_opaque/new_transparent/from_opaque/from_transparent/from_translucent, also from an Rgba), ARGB/BGRA/BGR, inverted_rgb (once and twice) and average_rgb structurally, shuffle_lo_hi and shuffled for all 256 masks, the 8 fixed lane helpers (Vec4 and Rgba), and the 12 matrix size conversions -- run on the free term algebra for EVERY EQUALITY PATTERN of its element positions: every set partition of the positions (restricted-growth strings), each block a fresh generator or one of the constants 0, 1, 255 = full() (n <= 5 positions: all patterns incl. the three constants; the two-operand lane helpers with 8 lanes: all 21147 patterns with the constant 0, thorough all 372939 with the three constants; shuffle_lo_hi x 256 masks: all 4140 partitions of the 8 lanes, thorough also the constants; Mat2 sources: all patterns incl. constants; Mat3 sources: all 21147 partitions of the 9 entries, thorough {0,1} + three generators; Mat4 sources: every assignment of two generators to the 16 entries, plus named border patterns -- identity padding, affine last row / column, zero / ones / uniform border, corner 0 / 1 -- with own generators in the kept block; thorough {own,0,1}^border); the result must be the plain routing (modulo x+0 = x, 1x = x, 0x = 0); this extends the parametricity argument from `impl<T>` to `T: PartialEq + Zero + One + ColorComponent`: such a function can only observe the equality pattern, so identical operands, palindromic / uniform / gray vectors and lanes equal to a constant are all presented; non-trivial: some positions equal or constant",
        true, false, sec_equal_patterns);
    rep.section("routing functions at machine element types (sizes 1..32 bytes, droppable elements)",
        "every bound-free routing function (20 From rows, 11 setters, 9 swizzles / projections, interleave_0011/2233, shuffle_lo_hi_0101, shuffle_hi_lo_2323 for Vec4 and Rgba, ARGB/BGRA/BGR, from_translucent from Rgb / Rgba / Vec3 / tuple / array) at u8 u16 u32 u64 u128 usize i8 i16 i32 i64 isize f32 f64 char [u8;3] [u64;4] String Box<u16> and the 8 Wrapping<_> types (element sizes 1, 2, 3, 4, 8, 16, 24, 32 bytes; String and Box are not Copy and need dropping); the `T: Copy` ones (shuffle_lo_hi and shuffled for all 256 masks, shuffled_0101/2323/0022/1133, a single-index and an out-of-range mask, From<T> broadcast for all 13 vector types) and the shrinking matrix conversions in both layouts at the 24 Copy types; the Zero / One / ColorComponent-bounded ones (zero-padding From rows, From<Rgb> for Rgba, Vec2::with_w, the point / direction constructors, new_opaque/new_transparent/from_opaque/from_transparent, gray/grey, the growing matrix conversions in both layouts, and the 26 nullary unit / direction / point constructors that need no negation) at the 18 numeric types; inputs are pairwise distinct lane values different from 0, 1 and full (floats: -0.0, two NaN payloads, +-inf, subnormals, MAX among them; compared bit for bit), paddings from std constants; this closes the hole in the parametricity argument left by mem::size_of / align_of / needs_drop, which need no bound; non-trivial: all",
        true, false, sec_machine_types);
    rep.section("colour helpers per component type on special values x equal-lane patterns",
        "ColorComponent is the only per-type dispatch in scope (18 hand-listed impls). For each of the 16 integer component types: every value of {0,1,2,3, 2^k-1, 2^k, 2^k+1, MAX-2^k, MAX-2^k+1 (1 <= k < bits), MAX-2..MAX, MAX/2-1..MAX/2+1, MAX/3, and for signed types MIN, MIN+1, MIN/2, -1,-2,-3, -2^k-1..-2^k+1} in each of the patterns (v,f,f'), (f,v,f'), (f,f',v), (v,v,f), (v,f,v), (f,v,v), (v,v,v) with f.. fixed in-range values: new_opaque, new_transparent, from_opaque, from_transparent, From<Rgb>, from_translucent(.., v), gray/grey (Rgb and Rgba) exactly; inverted_rgb (Rgb, and Rgba with alpha = v and a fixed alpha) == full - c from i128 arithmetic, alpha kept, twice == input (plain signed types: non-negative v only; Wrapping: all); average_rgb (the 7 callable integer types) on (v,p,q) in all three positions with p,q in {0,1,2,7}, Rgb and Rgba (alpha = v), == (r+g+b)/3 truncated where the sums are representable; f32 and f64: the constructors and gray/grey must transport -0.0, NaN, subnormals, +-inf, +-MAX and ordinary values bit for bit; non-trivial: all",
        true, false, |s| { s.require_classes(&CC_TYPES); s.require_classes(&["special-value", "sum-representable", "float-datum"]);
            colour_special_values::<u8>(s); colour_special_values::<u16>(s); colour_special_values::<u32>(s); colour_special_values::<u64>(s); colour_special_values::<i8>(s); colour_special_values::<i16>(s); colour_special_values::<i32>(s); colour_special_values::<i64>(s);
            colour_special_values::<Wrapping<u8>>(s); colour_special_values::<Wrapping<u16>>(s); colour_special_values::<Wrapping<u32>>(s); colour_special_values::<Wrapping<u64>>(s);
            colour_special_values::<Wrapping<i8>>(s); colour_special_values::<Wrapping<i16>>(s); colour_special_values::<Wrapping<i32>>(s); colour_special_values::<Wrapping<i64>>(s);
            colour_special_average::<u8>(s); colour_special_average::<u16>(s); colour_special_average::<u32>(s); colour_special_average::<u64>(s); colour_special_average::<i16>(s); colour_special_average::<i32>(s); colour_special_average::<i64>(s);
            colour_float_transport::<f32>(s); colour_float_transport::<f64>(s); });
    std::process::exit(rep.finish());
}
