//! C20 — numeric lifts, casts, approx equality are per element; mint / bytemuck conversions keep element positions.
//! (The cargo feature matrix of C20 is decided by a separate driver; the az casts live behind the harness feature `az`.)
//!
//! Oracle principle: the *scalar* operation of the element type (num_traits / `as` / NumCast / approx / az on a
//! primitive) is the specification; the vector / matrix / shape / quaternion form must return, per element, what the
//! scalar form returns, fail as a whole exactly when one element fails, set the flag exactly when one element sets it.
//! All inputs are built with struct literals and decoded through public fields (`VecN`, `MatIO`).
#![allow(clippy::type_complexity)]
use approx::{AbsDiffEq, RelativeEq, UlpsEq};
use num_traits::ops::checked::{CheckedAdd, CheckedDiv, CheckedMul, CheckedNeg, CheckedRem, CheckedSub};
use num_traits::ops::euclid::{CheckedEuclid, Euclid};
use num_traits::ops::inv::Inv;
use num_traits::ops::overflowing::{OverflowingAdd, OverflowingMul, OverflowingSub};
use num_traits::ops::saturating::{SaturatingAdd, SaturatingMul, SaturatingSub};
use num_traits::ops::wrapping::{WrappingAdd, WrappingMul, WrappingNeg, WrappingSub};
use num_traits::{NumCast, One, Zero};
use std::num::Wrapping;
use rayon::prelude::*;
use std::collections::BTreeMap;
use std::fmt::Debug;
use std::sync::Mutex;
use vek::geom::repr_c::{Aabb, Aabr, LineSegment2, LineSegment3, Rect, Rect3};
use vek::quaternion::repr_c::Quaternion;
use vx::matx::*;
use vx::term::Sym;
use vx::vecs::*;
use vx::*;

const ALL_TYPES: [&str; 13] = ["Vec2", "Vec3", "Vec4", "Vec8", "Vec16", "Vec32", "Vec64", "Extent2", "Extent3", "Rgb", "Rgba", "Uv", "Uvw"];

// ---------------------------------------------------------------------------------------------------------------
// per-lane outcome model
// ---------------------------------------------------------------------------------------------------------------
#[derive(Clone, Copy, PartialEq, Debug)]
enum Lane<T> { Val(T), Nil, Panic }
#[derive(Clone, Copy, Debug)]
struct Cell<T> { out: Lane<T>, flag: bool }
fn val<T>(v: T) -> Cell<T> { Cell { out: Lane::Val(v), flag: false } }
fn opt<T>(v: Option<T>) -> Cell<T> { Cell { out: v.map_or(Lane::Nil, Lane::Val), flag: false } }
fn flg<T>(v: (T, bool)) -> Cell<T> { Cell { out: Lane::Val(v.0), flag: v.1 } }
/// scalar operation that may panic (documented precondition of the scalar form)
fn pan<T>(f: impl FnOnce() -> T) -> Cell<T> { match catch(f) { Ok(v) => val(v), Err(_) => Cell { out: Lane::Panic, flag: false } } }
fn holds(b: bool) -> Cell<()> { if b { val(()) } else { Cell { out: Lane::Nil, flag: false } } }
impl<T> Cell<T> {
    fn is_panic(&self) -> bool { matches!(self.out, Lane::Panic) }
    fn is_nil(&self) -> bool { matches!(self.out, Lane::Nil) }
}
/// whole-value outcome of the lifted form (a panic arrives through `catch`)
enum VOut<T> { Val(Vec<T>, bool), Nil }
fn vtruth(n: usize, b: bool) -> VOut<()> { if b { VOut::Val(vec![(); n], false) } else { VOut::Nil } }

/// equality of results: integers by `==`, floats by bit pattern (any NaN equals any NaN)
trait Same { fn same(&self, o: &Self) -> bool; }
macro_rules! same_eq { ($($t:ty),*) => { $(impl Same for $t { fn same(&self, o: &Self) -> bool { self == o } })* } }
same_eq!(i8, u8, i16, u16, i32, u32, i64, u64, isize, usize, char, (), bool);
impl Same for Wrapping<i8> { fn same(&self, o: &Self) -> bool { self.0 == o.0 } }
impl Same for Wrapping<u8> { fn same(&self, o: &Self) -> bool { self.0 == o.0 } }
impl Same for f32 { fn same(&self, o: &Self) -> bool { self.to_bits() == o.to_bits() || (self.is_nan() && o.is_nan()) } }
impl Same for f64 { fn same(&self, o: &Self) -> bool { self.to_bits() == o.to_bits() || (self.is_nan() && o.is_nan()) } }

const WHO: [&str; 4] = ["", "varied lane only", "other lanes only", "both"];
fn who(own: bool, others: bool) -> usize { (own as usize) | ((others as usize) << 1) }

type Tally = BTreeMap<String, u64>;
fn flush(s: &Section, t: &Tally) { for (k, v) in t { s.class_n(k, *v); } }

// ---------------------------------------------------------------------------------------------------------------
// element types
// ---------------------------------------------------------------------------------------------------------------
trait Prim: Copy + Debug + PartialEq + Same + Send + Sync + Zero + One + NumCast + 'static {
    const NAME: &'static str;
    /// class alphabet of the type used for casts and Zero/One (boundaries of every primitive range, NaN, infinities...)
    fn alpha() -> Vec<Self>;
    /// benign lane-dependent value: neither zero nor one, convertible to every primitive type
    fn small(j: usize) -> Self;
    /// pairwise distinct labels 1..=120 (routing checks)
    fn lab(k: usize) -> Self { <Self as NumCast>::from(k + 1).expect("label") }
    /// sweep alphabet of the cast sections: `alpha()` plus every value of the 8-bit types, a +-1 comb (quick) or every value (thorough) of the
    /// 16-bit types, +-2^k+-1 for every k of the wider integers, and for floats every pattern of the 16 high bits (sign, exponent, leading
    /// mantissa bits; every 16th in quick) with the low bits all zero and all one
    fn sweep(_thorough: bool) -> Vec<Self> { Self::alpha() }
    /// pairs of non-zero values whose sum is zero (for the integers also with wrapping arithmetic): is_zero of a value holding them is false
    fn cancel() -> Vec<(Self, Self)>;
    /// pairs of values different from one whose (wrapping) product is one: is_one of a value holding them is false
    fn unit_pairs() -> Vec<(Self, Self)>;
}

trait IntElem: Prim + Eq
    + CheckedAdd + CheckedSub + CheckedMul + CheckedDiv + CheckedRem + CheckedNeg
    + WrappingAdd + WrappingSub + WrappingMul + WrappingNeg
    + SaturatingAdd + SaturatingSub + SaturatingMul
    + OverflowingAdd + OverflowingSub + OverflowingMul
    + Euclid + CheckedEuclid
{
    const BITS: u32;
    const SIGNED: bool;
    fn of(v: i128) -> Self;
    fn wide(self) -> i128;
    fn min_v() -> i128;
    fn max_v() -> i128;
}
fn isqrt(v: i128) -> i128 { let mut r = (v as f64).sqrt() as i128; while r * r > v { r -= 1; } while (r + 1) * (r + 1) <= v { r += 1; } r }
fn in_range<T: IntElem>(mut c: Vec<i128>) -> Vec<T> { c.retain(|v| *v >= T::min_v() && *v <= T::max_v()); c.sort(); c.dedup(); c.into_iter().map(T::of).collect() }
/// boundary alphabet for the lifted integer operations: range ends, halves (add/sub overflow), square roots (mul overflow), -1/0/1
fn boundary<T: IntElem>() -> Vec<T> {
    let (lo, hi) = (T::min_v(), T::max_v());
    let r = isqrt(hi);
    in_range::<T>(vec![lo, lo + 1, lo / 2 - 1, lo / 2, -(r + 1), -r, -3, -2, -1, 0, 1, 2, 3, 7, r, r + 1, hi / 3, hi / 2, hi / 2 + 1, hi - hi / 4, hi - 1, hi])
}
fn all_values<T: IntElem>() -> Vec<T> { (T::min_v()..=T::max_v()).map(T::of).collect() }
/// thorough alphabet of the wider types: the boundary alphabet plus +-2^k and +-(2^k - 1) (every k for 16 bit, every 2nd for 32/64 bit)
fn dense<T: IntElem>() -> Vec<T> {
    let mut c: Vec<i128> = boundary::<T>().into_iter().map(|v| v.wide()).collect();
    let mut k = 0; while k < T::BITS { let p = 1i128 << k; c.extend([p, p - 1, -p, -(p - 1)]); k += if T::BITS == 16 { 1 } else { 2 }; }
    in_range::<T>(c)
}
/// cast alphabet: boundaries of every primitive range seen from this type
fn int_cast_alpha<T: IntElem>() -> Vec<T> {
    let mut c = vec![T::min_v(), T::min_v() + 1, -1, 0, 1, 2, T::max_v() - 1, T::max_v()];
    for k in [7u32, 8, 15, 16, 24, 31, 32, 53, 63] { let p = 1i128 << k; c.extend([p - 1, p, p + 1, -p - 1, -p, -p + 1]); }
    in_range::<T>(c)
}
fn int_sweep<T: IntElem>(thorough: bool) -> Vec<T> {
    let mut c: Vec<i128> = T::alpha().into_iter().map(|v| v.wide()).collect();
    if T::BITS == 8 || (T::BITS == 16 && thorough) { c.extend(T::min_v()..=T::max_v()); }
    else if T::BITS == 16 { let mut v = T::min_v(); while v <= T::max_v() { c.extend([v - 1, v, v + 1]); v += 251; } }
    else { for k in 0..T::BITS { let p = 1i128 << k; c.extend([p - 1, p, p + 1, -p - 1, -p, -p + 1]); if thorough { c.extend([p + p / 2, -(p + p / 2), p / 3, -(p / 3), p - p / 4]); } } }
    in_range::<T>(c)
}
macro_rules! int_elem { ($($t:ident $bits:expr, $signed:expr);*) => { $(
    impl Prim for $t {
        const NAME: &'static str = stringify!($t);
        fn alpha() -> Vec<$t> { int_cast_alpha::<$t>() }
        fn small(j: usize) -> $t { (j % 50 + 2) as $t }
        fn sweep(thorough: bool) -> Vec<$t> { int_sweep::<$t>(thorough) }
        fn cancel() -> Vec<($t, $t)> {
            let z: $t = 0;
            let mut v = vec![(1 as $t, z.wrapping_sub(1)), (z.wrapping_sub(1), 1 as $t), (<$t>::MAX, z.wrapping_sub(<$t>::MAX)), (<$t>::MIN, <$t>::MIN), (<$t>::MAX / 2 + 1, <$t>::MAX / 2 + 1), (7 as $t, z.wrapping_sub(7))];
            v.retain(|&(a, b)| a != 0 && b != 0 && a.wrapping_add(b) == 0);
            v
        }
        fn unit_pairs() -> Vec<($t, $t)> { let m = (0 as $t).wrapping_sub(1); let mut v = vec![(m, m)]; v.retain(|&(a, b)| a != 1 && b != 1 && a.wrapping_mul(b) == 1); v }
    }
    impl IntElem for $t {
        const BITS: u32 = $bits; const SIGNED: bool = $signed;
        fn of(v: i128) -> $t { <$t>::try_from(v).expect("context value out of range") }
        fn wide(self) -> i128 { self as i128 }
        fn min_v() -> i128 { <$t>::MIN as i128 }
        fn max_v() -> i128 { <$t>::MAX as i128 }
    }
)* } }
int_elem!(i8 8, true; u8 8, false; i16 16, true; u16 16, false; i32 32, true; u32 32, false; i64 64, true; u64 64, false; isize 64, true; usize 64, false);

trait FloatElem: Prim + Bits + Inv<Output = Self> + Euclid + AbsDiffEq<Epsilon = Self> + RelativeEq + UlpsEq {
    /// one representative per float class (+ a few neighbours that separate the approx predicates)
    fn classes() -> Vec<Self>;
    fn of(v: f64) -> Self;
    /// thorough class alphabet: `classes()` plus ULP neighbours of 1 (2, 4, 5 ULPs above, 1 below), fractional and negative values that separate
    /// Euclidean from truncating division, the same shapes scaled by 2^+-40 (f32) / 2^+-400 (f64), MAX/2, the predecessor of MAX, the largest subnormal
    fn classes_ext() -> Vec<Self>;
    /// targeted pair list of the approx lifts: pairs k ULPs apart (k in 1,2,4,5,6,16) at nine magnitudes and both signs, pairs straddling
    /// max_relative 0.25 and 1e-3 at three scales, pairs straddling epsilon 1e-3, sign-crossing pairs, infinities / NaN / MAX pairs; both orders
    fn near_pairs() -> Vec<(Self, Self)>;
    /// non-finite / negative / huge tolerances
    fn inf() -> Self; fn nan() -> Self; fn maxv() -> Self; fn subn() -> Self;
}
macro_rules! float_elem { ($($t:ident $bits:ident $shift:expr, $exp:expr);*) => { $(
    impl FloatElem for $t {
        fn inf() -> $t { <$t>::INFINITY } fn nan() -> $t { <$t>::NAN } fn maxv() -> $t { <$t>::MAX } fn subn() -> $t { <$t>::from_bits(1) }
        fn classes_ext() -> Vec<$t> {
            let mut v = <$t as FloatElem>::classes();
            let (big, tiny) = ((2.0 as $t).powi($exp), (2.0 as $t).powi(-$exp));
            let up = |x: $t, k: $bits| <$t>::from_bits(x.to_bits() + k);
            v.extend([up(1.0, 2), up(1.0, 4), up(1.0, 5), <$t>::from_bits((1.0 as $t).to_bits() - 1), 1.25, 2.5, -2.5, 7.0, -0.3, 1e-3,
                big, up(big, 1), big * 1.25, -big, tiny, up(tiny, 1), tiny * 1.25, -tiny,
                <$t>::MAX / 2.0, <$t>::from_bits(<$t>::MAX.to_bits() - 1), <$t>::from_bits(<$t>::MIN_POSITIVE.to_bits() - 1)]);
            v
        }
        fn near_pairs() -> Vec<($t, $t)> {
            let (big, tiny) = ((2.0 as $t).powi($exp), (2.0 as $t).powi(-$exp));
            let up = |x: $t, k: $bits| <$t>::from_bits(x.to_bits() + k);   // k ULPs further from zero (sign kept)
            let dn = |x: $t, k: $bits| <$t>::from_bits(x.to_bits() - k);
            let sub = <$t>::from_bits(1);
            let mut p: Vec<($t, $t)> = Vec::new();
            for x in [1.0, 0.1, 3.5, big, tiny, <$t>::MIN_POSITIVE, <$t>::MAX / 2.0, -1.0, -big] { for k in [1, 2, 4, 5, 6, 16] { p.push((x, up(x, k))); } }
            for x in [1.0, big, tiny, -1.0] {
                p.extend([(x, x * 1.25), (x, up(x * 1.25, 2)), (x, dn(x * 1.25, 2)), (x, x * 1.5), (x, x * 1.001), (x, up(x * 1.001, 2)), (x, dn(x * 1.001, 2)), (x, x * 2.0), (x, x * 4.0)]);
            }
            p.extend([(0.0, 1e-3), (0.0, up(1e-3, 1)), (0.0, dn(1e-3, 1)), (0.1, 0.1 + 1e-3), (0.1, 0.1 + 2e-3), (3.5, 3.5 + 1e-3), (3.5, 3.5 + 5e-4), (-7.5, -7.5 - 1e-3),
                (sub, -sub), (<$t>::MIN_POSITIVE, -<$t>::MIN_POSITIVE), (0.0, -0.0), (tiny, -tiny), (1.0, -1.0), (sub, up(sub, 1)), (sub, up(sub, 5)), (0.0, sub), (0.0, tiny),
                (<$t>::MAX, <$t>::INFINITY), (<$t>::MAX, -<$t>::MAX), (<$t>::INFINITY, <$t>::INFINITY), (<$t>::INFINITY, <$t>::NEG_INFINITY), (<$t>::NAN, <$t>::NAN), (<$t>::NAN, 1.0),
                (<$t>::MAX, dn(<$t>::MAX, 1)), (<$t>::MAX, dn(<$t>::MAX, 5)), (big, <$t>::INFINITY), (big, -big), (1.0, 1.0), (big, big), (tiny, tiny)]);
            let rev: Vec<($t, $t)> = p.iter().map(|&(a, b)| (b, a)).collect();
            p.extend(rev);
            p
        }
        fn classes() -> Vec<$t> {
            let sub = <$t>::from_bits(1);
            vec![0.0, -0.0, sub, -sub, <$t>::MIN_POSITIVE, 0.1, 1.0, -1.0, 1.0 + <$t>::EPSILON, 1.0005, 3.5, -7.5, <$t>::MAX, <$t>::MIN, <$t>::INFINITY, <$t>::NEG_INFINITY, <$t>::NAN]
        }
        fn of(v: f64) -> $t { v as $t }
    }
    impl Prim for $t {
        const NAME: &'static str = stringify!($t);
        fn alpha() -> Vec<$t> {
            let mut v = <$t as FloatElem>::classes();
            for x in [0.5f64, 0.99, 1.5, 127.0, 127.5, 128.0, 128.5, 129.0, 255.0, 255.5, 256.0, 32767.0, 32767.5, 32768.0, 32769.0, 65535.0, 65535.5, 65536.0,
                      16777216.0, 16777217.0, 2147483520.0, 2147483647.0, 2147483648.0, 2147483649.0, 4294967295.0, 4294967296.0, 9007199254740992.0, 9007199254740993.0,
                      9223372036854775807.0, 9223372036854775808.0, 9.3e18, 18446744073709551615.0, 1.8446744073709552e19, 2e19, 3.4028234663852886e38, 3.5e38, 1e300] {
                let y = x as $t; v.push(y); v.push(-y);
            }
            let mut out: Vec<$t> = Vec::new();
            for x in v { if !out.iter().any(|o| o.to_bits() == x.to_bits()) { out.push(x); } }
            out
        }
        fn cancel() -> Vec<($t, $t)> { let sub = <$t>::from_bits(1); vec![(1.0, -1.0), (-1.0, 1.0), (sub, -sub), (<$t>::MAX, <$t>::MIN), (3.5, -3.5), (<$t>::INFINITY, <$t>::NEG_INFINITY)] }
        fn unit_pairs() -> Vec<($t, $t)> { vec![(2.0, 0.5), (-1.0, -1.0), (0.25, 4.0)] }
        fn small(j: usize) -> $t { (j % 50) as $t + 2.5 }
        fn sweep(thorough: bool) -> Vec<$t> {
            let mut v = <$t as Prim>::alpha();
            let low: $bits = ((1 as $bits) << $shift) - 1;
            let mut k: $bits = 0;
            while k < 65536 { let hi = k << $shift; v.push(<$t>::from_bits(hi)); v.push(<$t>::from_bits(hi | low)); if thorough { v.push(<$t>::from_bits(hi | (low >> 1) + 1)); } k += if thorough { 1 } else { 16 }; }
            v
        }
    }
)* } }
float_elem!(f32 u32 16, 40; f64 u64 48, 400);

// ---------------------------------------------------------------------------------------------------------------
// integer lifts (typed hot path)
// ---------------------------------------------------------------------------------------------------------------
trait LiftVec<T>: VecN<T> + Copy + Send + Sync
    + CheckedAdd + CheckedSub + CheckedMul + CheckedDiv + CheckedRem + CheckedNeg
    + WrappingAdd + WrappingSub + WrappingMul + WrappingNeg
    + SaturatingAdd + SaturatingSub + SaturatingMul
    + OverflowingAdd + OverflowingSub + OverflowingMul
    + Euclid + CheckedEuclid {}
impl<T, V> LiftVec<T> for V where V: VecN<T> + Copy + Send + Sync
    + CheckedAdd + CheckedSub + CheckedMul + CheckedDiv + CheckedRem + CheckedNeg
    + WrappingAdd + WrappingSub + WrappingMul + WrappingNeg
    + SaturatingAdd + SaturatingSub + SaturatingMul
    + OverflowingAdd + OverflowingSub + OverflowingMul
    + Euclid + CheckedEuclid {}

#[derive(Clone, Copy, PartialEq, Debug)]
enum Fam { Add, Sub, Mul, Div, Neg }
struct OpDef<V, T> { name: &'static str, family: &'static str, fam: Fam, unary: bool, panicky: bool, scalar: fn(T, T) -> Cell<T>, vector: fn(&V, &V) -> VOut<T> }
fn vopt<V: VecN<T>, T>(o: Option<V>) -> VOut<T> { match o { Some(v) => VOut::Val(v.into_elems(), false), None => VOut::Nil } }
fn vval<V: VecN<T>, T>(v: V) -> VOut<T> { VOut::Val(v.into_elems(), false) }
fn vflg<V: VecN<T>, T>(v: (V, bool)) -> VOut<T> { VOut::Val(v.0.into_elems(), v.1) }

fn int_ops<V: LiftVec<T>, T: IntElem>() -> Vec<OpDef<V, T>> {
    macro_rules! op { ($name:literal, $family:literal, $fam:expr, $unary:expr, $pk:expr, |$a:ident, $b:ident| $sc:expr, |$x:ident, $y:ident| $ve:expr) => {
        OpDef { name: $name, family: $family, fam: $fam, unary: $unary, panicky: $pk, scalar: |$a: T, $b: T| $sc, vector: |$x: &V, $y: &V| $ve }
    } }
    vec![
        op!("checked_add", "checked", Fam::Add, false, false, |a, b| opt(CheckedAdd::checked_add(&a, &b)), |x, y| vopt(CheckedAdd::checked_add(x, y))),
        op!("checked_sub", "checked", Fam::Sub, false, false, |a, b| opt(CheckedSub::checked_sub(&a, &b)), |x, y| vopt(CheckedSub::checked_sub(x, y))),
        op!("checked_mul", "checked", Fam::Mul, false, false, |a, b| opt(CheckedMul::checked_mul(&a, &b)), |x, y| vopt(CheckedMul::checked_mul(x, y))),
        op!("checked_div", "checked", Fam::Div, false, false, |a, b| opt(CheckedDiv::checked_div(&a, &b)), |x, y| vopt(CheckedDiv::checked_div(x, y))),
        op!("checked_rem", "checked", Fam::Div, false, false, |a, b| opt(CheckedRem::checked_rem(&a, &b)), |x, y| vopt(CheckedRem::checked_rem(x, y))),
        op!("checked_neg", "checked", Fam::Neg, true, false, |a, _b| opt(CheckedNeg::checked_neg(&a)), |x, _y| vopt(CheckedNeg::checked_neg(x))),
        op!("checked_div_euclid", "checked", Fam::Div, false, false, |a, b| opt(CheckedEuclid::checked_div_euclid(&a, &b)), |x, y| vopt(CheckedEuclid::checked_div_euclid(x, y))),
        op!("checked_rem_euclid", "checked", Fam::Div, false, false, |a, b| opt(CheckedEuclid::checked_rem_euclid(&a, &b)), |x, y| vopt(CheckedEuclid::checked_rem_euclid(x, y))),
        op!("wrapping_add", "wrapping", Fam::Add, false, false, |a, b| val(WrappingAdd::wrapping_add(&a, &b)), |x, y| vval(WrappingAdd::wrapping_add(x, y))),
        op!("wrapping_sub", "wrapping", Fam::Sub, false, false, |a, b| val(WrappingSub::wrapping_sub(&a, &b)), |x, y| vval(WrappingSub::wrapping_sub(x, y))),
        op!("wrapping_mul", "wrapping", Fam::Mul, false, false, |a, b| val(WrappingMul::wrapping_mul(&a, &b)), |x, y| vval(WrappingMul::wrapping_mul(x, y))),
        op!("wrapping_neg", "wrapping", Fam::Neg, true, false, |a, _b| val(WrappingNeg::wrapping_neg(&a)), |x, _y| vval(WrappingNeg::wrapping_neg(x))),
        op!("saturating_add", "saturating", Fam::Add, false, false, |a, b| val(SaturatingAdd::saturating_add(&a, &b)), |x, y| vval(SaturatingAdd::saturating_add(x, y))),
        op!("saturating_sub", "saturating", Fam::Sub, false, false, |a, b| val(SaturatingSub::saturating_sub(&a, &b)), |x, y| vval(SaturatingSub::saturating_sub(x, y))),
        op!("saturating_mul", "saturating", Fam::Mul, false, false, |a, b| val(SaturatingMul::saturating_mul(&a, &b)), |x, y| vval(SaturatingMul::saturating_mul(x, y))),
        op!("overflowing_add", "overflowing", Fam::Add, false, false, |a, b| flg(OverflowingAdd::overflowing_add(&a, &b)), |x, y| vflg(OverflowingAdd::overflowing_add(x, y))),
        op!("overflowing_sub", "overflowing", Fam::Sub, false, false, |a, b| flg(OverflowingSub::overflowing_sub(&a, &b)), |x, y| vflg(OverflowingSub::overflowing_sub(x, y))),
        op!("overflowing_mul", "overflowing", Fam::Mul, false, false, |a, b| flg(OverflowingMul::overflowing_mul(&a, &b)), |x, y| vflg(OverflowingMul::overflowing_mul(x, y))),
        op!("div_euclid", "euclid", Fam::Div, false, true, |a, b| pan(|| Euclid::div_euclid(&a, &b)), |x, y| vval(Euclid::div_euclid(x, y))),
        op!("rem_euclid", "euclid", Fam::Div, false, true, |a, b| pan(|| Euclid::rem_euclid(&a, &b)), |x, y| vval(Euclid::rem_euclid(x, y))),
    ]
}
const INT_OPS: [&str; 20] = ["checked_add", "checked_sub", "checked_mul", "checked_div", "checked_rem", "checked_neg", "checked_div_euclid", "checked_rem_euclid",
    "wrapping_add", "wrapping_sub", "wrapping_mul", "wrapping_neg", "saturating_add", "saturating_sub", "saturating_mul",
    "overflowing_add", "overflowing_sub", "overflowing_mul", "div_euclid", "rem_euclid"];
const LIFT_CLASSES: [&str; 20] = [
    "checked: exact", "checked: None: varied lane only", "checked: None: other lanes only", "checked: None: both",
    "wrapping: exact", "wrapping: inexact: varied lane only", "wrapping: inexact: other lanes only", "wrapping: inexact: both",
    "saturating: exact", "saturating: inexact: varied lane only", "saturating: inexact: other lanes only", "saturating: inexact: both",
    "overflowing: exact", "overflowing: flag: varied lane only", "overflowing: flag: other lanes only", "overflowing: flag: both",
    "euclid: exact", "euclid: panic: varied lane only", "euclid: panic: other lanes only", "euclid: panic: both"];

/// the mathematically exact integer result (None: undefined or beyond i128) — used only to classify cases, never as an oracle
fn exact(name: &str, a: i128, b: i128) -> Option<i128> {
    if name.ends_with("div_euclid") { if b == 0 { None } else { Some(a.div_euclid(b)) } }
    else if name.ends_with("rem_euclid") { if b == 0 { None } else { Some(a.rem_euclid(b)) } }
    else if name.ends_with("add") { Some(a + b) } else if name.ends_with("sub") { Some(a - b) } else if name.ends_with("mul") { a.checked_mul(b) }
    else if name.ends_with("neg") { Some(-a) } else if name.ends_with("div") { if b == 0 { None } else { Some(a / b) } }
    else if name.ends_with("rem") { if b == 0 { None } else { Some(a % b) } } else { None }
}
fn inexact<T: IntElem>(name: &str, a: T, b: T, c: &Cell<T>) -> bool {
    match c.out { Lane::Val(v) => c.flag || Some(v.wide()) != exact(name, a.wide(), b.wide()), _ => true }
}

/// operands of a non-varied lane: benign (in range, lane-dependent, both signs) or hazardous (overflow / division by zero / MIN/-1)
fn ctx_pair<T: IntElem>(fam: Fam, j: usize, hazard: bool) -> (T, T) {
    let j = j as i128;
    let sg = T::SIGNED;
    let neg_if = |c: bool, v: i128| if sg && c { -v } else { v };
    let (a, b) = if !hazard { match fam {
        Fam::Add => (neg_if(j % 3 == 2, j + 1), j % 7 + 1),
        Fam::Sub => (j + 8, j % 7 + 1),
        Fam::Mul => (neg_if(j % 2 == 1, j % 9 + 1), j % 7 + 1),
        Fam::Div => (neg_if(j % 2 == 1, 100 - j), neg_if(j % 4 >= 2, j % 7 + 2)),
        Fam::Neg => if sg { (neg_if(j % 2 == 1, j + 1), 0) } else { (0, 0) },
    } } else { match fam {
        Fam::Add => (T::max_v(), 1),
        Fam::Sub => (T::min_v(), 1),
        Fam::Mul => (T::max_v() / 2 + 1, 2),
        Fam::Div => if sg && j % 2 == 1 { (T::min_v(), -1) } else { (7, 0) },
        Fam::Neg => if sg { (T::min_v(), 0) } else { (j % 5 + 1, 0) },
    } };
    (T::of(a), T::of(b))
}
const CTX: [&str; 4] = ["others benign", "one other lane hazardous", "all other lanes hazardous", "every other lane holds equal operands"];
/// context 3: both operands of a non-varied lane are the same benign lane-dependent value (no overflow, no zero divisor), so that the whole
/// vectors are equal whenever the varied lane holds (a, a): reaches shortcuts keyed on `self == v` / on the same object passed twice
fn eq_pair<T: IntElem>(fam: Fam, j: usize) -> (T, T) {
    let k = j as i128;
    let v = match fam { Fam::Add => k % 50 + 1, Fam::Sub => k % 50 + 2, Fam::Mul => k % 9 + 2, Fam::Div => k % 7 + 2, Fam::Neg => 1 };
    let v = if T::SIGNED && k % 2 == 1 { -v } else { v };
    (T::of(v), T::of(v))
}
const EQ_CLASSES: [&str; 2] = ["equal operands in every lane (self == v)", "same object passed as both operands"];

struct Tab<T> { cells: Vec<Cell<T>>, inexact: Vec<bool> }

/// every lane position x every operand pair of the alphabet in that lane x 3 contexts x 20 lifted operations
fn int_lifts<V: LiftVec<T>, T: IntElem>(s: &Section, full8: bool) {
    let n = V::N;
    let ops = int_ops::<V, T>();
    let bnd = boundary::<T>();
    let wide: Vec<T> = if !full8 { bnd.clone() } else if T::BITS == 8 { all_values::<T>() } else { dense::<T>() };
    let mk = |op: &OpDef<V, T>, al: &[T]| -> Tab<T> {
        let mut t = Tab { cells: Vec::new(), inexact: Vec::new() };
        for &a in al { for &b in if op.unary { &al[..1] } else { al } {
            let c = (op.scalar)(a, b);
            t.inexact.push(inexact(op.name, a, b, &c)); t.cells.push(c);
        } }
        t
    };
    let tabs: Vec<[Tab<T>; 2]> = ops.iter().map(|op| [mk(op, &wide), mk(op, &bnd)]).collect();
    let mut jobs = Vec::new();
    for oi in 0..ops.len() { for ctx in 0..4usize { if ctx == 3 && ops[oi].unary { continue; } for p in 0..n { jobs.push((oi, ctx, p)); } } }
    let total = Mutex::new((0u64, Tally::new()));
    jobs.par_iter().for_each(|&(oi, ctx, p)| {
        let op = &ops[oi];
        let small = ctx >= 2 || (op.panicky && ctx != 0);
        let (al, tab) = if small { (&bnd, &tabs[oi][1]) } else { (&wide, &tabs[oi][0]) };
        let hz = |j: usize| ctx == 2 || (ctx == 1 && j == (p + 1) % n);
        let (ea, eb): (Vec<T>, Vec<T>) = (0..n).map(|j| if ctx == 3 { eq_pair::<T>(op.fam, j) } else { ctx_pair::<T>(op.fam, j, hz(j)) }).unzip();
        let oc: Vec<Cell<T>> = (0..n).map(|j| (op.scalar)(ea[j], eb[j])).collect();
        let others = |f: &dyn Fn(usize) -> bool| (0..n).any(|j| j != p && f(j));
        let (o_panic, o_nil, o_flag) = (others(&|j| oc[j].is_panic()), others(&|j| oc[j].is_nil()), others(&|j| oc[j].flag));
        let o_inexact = others(&|j| inexact(op.name, ea[j], eb[j], &oc[j]));
        let with = |base: &Vec<T>, x: T| { let mut e = base.clone(); e[p] = x; V::from_elems(e) };
        let va: Vec<V> = al.iter().map(|&x| with(&ea, x)).collect();
        let vb: Vec<V> = if op.unary { vec![va[0]] } else { al.iter().map(|&x| with(&eb, x)).collect() };
        let nb = if op.unary { 1 } else { al.len() };
        let site = format!("{}<{}>::{}", V::NAME, T::NAME, op.name);
        let mut cls = [0u64; 13]; // exact, inexact x3, None x3, flag x3, panic x3
        let (mut evals, mut nontriv, mut reported) = (0u64, 0u64, 0u32);
        let mut eqs = [0u64; 2];
        for ia in 0..al.len() { for ib in 0..nb {
            let k = ia * nb + ib;
            let cell = tab.cells[k];
            let (w_panic, w_nil, w_flag) = (o_panic || cell.is_panic(), o_nil || cell.is_nil(), o_flag || cell.flag);
            let ci = if w_panic { 9 + who(cell.is_panic(), o_panic) } else if w_nil { 3 + who(cell.is_nil(), o_nil) } else if w_flag { 6 + who(cell.flag, o_flag) }
                     else if tab.inexact[k] || o_inexact { who(tab.inexact[k], o_inexact) } else { 0 };
            // in context 3 the whole vectors are equal when the varied lane holds (a, a): the lifted form is then called a second time with the
            // very same object as both operands (same per-lane expectation)
            let whole_equal = ctx == 3 && ia == ib;
            if whole_equal { eqs[0] += 1; }
          for form in 0..(1 + whole_equal as usize) {
            if form == 1 { eqs[1] += 1; }
            cls[ci] += 1; evals += 1; if ci != 0 { nontriv += 1; }
            let got = if form == 0 { catch(|| (op.vector)(&va[ia], &vb[ib])) } else { catch(|| (op.vector)(&va[ia], &va[ia])) };
            let bad: Option<(&str, String)> = match got {
                Err(Caught::Unmodelled(w)) => { s.unmodelled(w); None }
                Err(Caught::Panic(m)) => if w_panic { None } else { Some(("unexpected-panic", m)) },
                Ok(_) if w_panic => Some(("missing-panic", "returned although the scalar form panics on some lane".into())),
                Ok(VOut::Nil) => if w_nil { None } else { Some(("none-although-every-lane-is-some", "None".into())) },
                Ok(VOut::Val(v, _)) if w_nil => Some(("some-although-a-lane-is-none", format!("Some({:?})", v))),
                Ok(VOut::Val(v, f)) => {
                    let lane_ok = |j: usize| { let want = if j == p { cell.out } else { oc[j].out }; want == Lane::Val(v[j]) };
                    if v.len() != n { Some(("wrong-length", format!("{:?}", v))) }
                    else if let Some(j) = (0..n).find(|&j| !lane_ok(j)) { Some(("wrong-lane-value", format!("lane {} of {:?}", j, v))) }
                    else if f != w_flag { Some(("wrong-overflow-flag", format!("flag {} for {:?}", f, v))) } else { None }
                }
            };
            if let Some((class, got)) = bad {
                reported += 1;
                if reported <= 3 {
                    let (mut a, mut b) = (ea.clone(), eb.clone()); a[p] = al[ia]; if !op.unary { b[p] = al[ib]; }
                    let want: Vec<String> = (0..n).map(|j| format!("{:?}", if j == p { cell } else { oc[j] })).collect();
                    s.violation_w(&site, class, json!({"lane": p, "context": CTX[ctx], "a": jd(&a), "b": if op.unary { json!(null) } else { jd(&b) }, "got": got,
                        "want_per_lane": want, "want_flag": w_flag, "same_object_as_both_operands": form == 1}), (((n * 4 + ctx) as u64) << 32) | ((p as u64) << 20) | ((ia as u64) << 10) | ib as u64);
                }
            }
          }
            if ci != 0 && ctx == 1 && ia % 37 == 5 && s.wants_sample() {
                s.sample(json!({"call": site, "varied_lane": p, "context": CTX[ctx], "a_lane": jd(&al[ia]), "b_lane": jd(&al[ib.min(al.len() - 1)]), "scalar_outcome_of_varied_lane": jd(&cell)}));
            }
        } }
        s.evals(evals, nontriv);
        let mut g = total.lock().unwrap();
        g.0 += evals;
        let names = ["exact", "inexact: varied lane only", "inexact: other lanes only", "inexact: both", "None: varied lane only", "None: other lanes only", "None: both",
            "flag: varied lane only", "flag: other lanes only", "flag: both", "panic: varied lane only", "panic: other lanes only", "panic: both"];
        // index map: 0 exact, 1..3 inexact, 4..6 None (3+who), 7..9 flag (6+who), 10..12 panic (9+who)
        for (i, c) in cls.iter().enumerate() { if *c > 0 { *g.1.entry(format!("{}: {}", op.family, names[i])).or_insert(0) += c; } }
        *g.1.entry(op.name.to_string()).or_insert(0) += evals;
        for i in 0..2 { if eqs[i] > 0 { *g.1.entry(EQ_CLASSES[i].to_string()).or_insert(0) += eqs[i]; } }
    });
    let g = total.into_inner().unwrap();
    flush(s, &g.1);
    s.class_n(V::NAME, g.0); s.class_n(T::NAME, g.0);
    let _ = WHO;
}

// ---------------------------------------------------------------------------------------------------------------
// flat driver: any lifted form seen as  [I; n] -> whole outcome,  against a per-element scalar rule  I -> Cell<D>
// (I is one element, or a pair of corresponding elements for binary forms and approx predicates)
// ---------------------------------------------------------------------------------------------------------------
struct Flat<'a, I, D> {
    site: String,                                   // API call and configuration (violation key)
    tag: &'a str,                                   // class prefix in the tallies
    n: usize,                                       // number of element positions
    alpha: &'a [I],                                 // alphabet of the varied position
    safe: &'a (dyn Fn(usize) -> I + Sync),          // benign position-dependent element (scalar rule yields a plain value)
    bad: Option<I>,                                 // an element on which the scalar rule fails / flags / panics (one-hot context)
    scalar: &'a (dyn Fn(I) -> Cell<D> + Sync),
    vector: &'a (dyn Fn(&[I]) -> VOut<D> + Sync),
    predicate: bool,                                // whole outcome is a bool (Nil = false): only the verdict is compared
    interesting: &'a (dyn Fn(I) -> bool + Sync),    // non-trivial rule for plain outcomes
}
const FCTX: [&str; 4] = ["others benign", "one other position failing", "others rotate through the alphabet", "every other position holds a different unequal pair that still passes"];

fn run_flat<I: Copy + Debug + Send + Sync, D: Copy + Debug + Same + Send + Sync>(s: &Section, tally: &mut Tally, f: Flat<I, D>) { run_flat_x(s, tally, f, &[]) }
/// `hold`: pool for a 4th context in which every other position holds an element of the pool (for predicates: unequal pairs on which the scalar
/// predicate still holds, so that the whole outcome is decided by the varied position alone although every position deviates: separates a
/// per-element conjunction from anything that accumulates deviations over the positions, e.g. a norm or a sum of differences)
fn run_flat_x<I: Copy + Debug + Send + Sync, D: Copy + Debug + Same + Send + Sync>(s: &Section, tally: &mut Tally, f: Flat<I, D>, hold: &[I]) {
    let n = f.n;
    let acell: Vec<Cell<D>> = f.alpha.iter().map(|&a| (f.scalar)(a)).collect();
    let bcell = f.bad.map(|b| (f.scalar)(b));
    let mut jobs = Vec::new();
    for p in 0..n { for ctx in 0..4usize { if ctx == 1 && (f.bad.is_none() || n < 2) { continue; } if ctx == 3 && (hold.is_empty() || n < 2) { continue; } jobs.push((p, ctx)); } }
    let out = Mutex::new((Tally::new(), 0u64));
    let body = |&(p, ctx): &(usize, usize)| {
        let mut elems: Vec<I> = Vec::with_capacity(n);
        let mut cells: Vec<Cell<D>> = Vec::with_capacity(n);
        for j in 0..n {
            match ctx {
                1 if j == (p + 1) % n => { elems.push(f.bad.unwrap()); cells.push(bcell.unwrap()); }
                2 => { let k = (j * 7 + p + 3) % f.alpha.len(); elems.push(f.alpha[k]); cells.push(acell[k]); }
                3 => { let e = hold[(j * 5 + p) % hold.len()]; elems.push(e); cells.push((f.scalar)(e)); }
                _ => { let e = (f.safe)(j); elems.push(e); cells.push((f.scalar)(e)); }
            }
        }
        let others = |g: &dyn Fn(&Cell<D>) -> bool| (0..n).any(|j| j != p && g(&cells[j]));
        let (o_panic, o_nil, o_flag) = (others(&|c| c.is_panic()), others(&|c| c.is_nil()), others(&|c| c.flag));
        let mut local = Tally::new();
        let (mut evals, mut nontriv, mut reported) = (0u64, 0u64, 0u32);
        for (ia, &a) in f.alpha.iter().enumerate() {
            elems[p] = a; cells[p] = acell[ia];
            let c = acell[ia];
            let (w_panic, w_nil, w_flag) = (o_panic || c.is_panic(), o_nil || c.is_nil(), o_flag || c.flag);
            let label = if w_panic { format!("{}: panic: {}", f.tag, WHO[who(c.is_panic(), o_panic)]) }
                else if w_nil { format!("{}: {}: {}", f.tag, if f.predicate { "false" } else { "None" }, WHO[who(c.is_nil(), o_nil)]) }
                else if w_flag { format!("{}: flag: {}", f.tag, WHO[who(c.flag, o_flag)]) }
                else { format!("{}: {}", f.tag, if f.predicate { "true" } else { "plain" }) };
            *local.entry(label).or_insert(0) += 1;
            if ctx == 3 && !w_panic && !w_nil { *local.entry(format!("{}: holds although every position deviates", f.tag)).or_insert(0) += 1; }
            evals += 1;
            if w_panic || w_nil || w_flag || (f.interesting)(a) { nontriv += 1; }
            let got = catch(|| (f.vector)(&elems));
            let bad: Option<(&str, String)> = match got {
                Err(Caught::Unmodelled(w)) => { s.unmodelled(w); None }
                Err(Caught::Panic(m)) => if w_panic { None } else { Some(("unexpected-panic", m)) },
                // a conjunction may stop at a failing element before it reaches a panicking one: with both present, `false` and a panic are both per-element outcomes
                Ok(VOut::Nil) if f.predicate && w_panic && w_nil => None,
                Ok(_) if w_panic => Some(("missing-panic", "returned although the scalar form panics on some element".into())),
                Ok(VOut::Nil) => if w_nil { None } else { Some((if f.predicate { "false-although-every-element-holds" } else { "none-although-every-element-is-some" }, "None/false".into())) },
                Ok(VOut::Val(v, _)) if w_nil => Some((if f.predicate { "true-although-an-element-fails" } else { "some-although-an-element-is-none" }, format!("{:?}", v))),
                Ok(VOut::Val(v, fl)) => {
                    let ok = |j: usize| matches!(cells[j].out, Lane::Val(e) if e.same(&v[j]));
                    if v.len() != n { Some(("wrong-length", format!("{:?}", v))) }
                    else if let Some(j) = (0..n).find(|&j| !ok(j)) { Some(("wrong-element-value", format!("position {} of {:?}", j, v))) }
                    else if fl != w_flag { Some(("wrong-overflow-flag", format!("flag {} for {:?}", fl, v))) } else { None }
                }
            };
            if let Some((class, got)) = bad {
                reported += 1;
                if reported <= 2 {
                    let want: Vec<String> = cells.iter().map(|c| format!("{:?}", c)).collect();
                    s.violation_w(&f.site, class, json!({"varied_position": p, "context": FCTX[ctx], "elements": jd(&elems), "got": got, "want_per_element": want, "want_flag": w_flag}), (((n * 4 + ctx) as u64) << 32) | ((p as u64) << 20) | ia as u64);
                }
            }
            if ctx == 0 && ia % 5 == 2 && s.wants_sample() {
                s.sample(json!({"call": f.site, "varied_position": p, "context": FCTX[ctx], "element": jd(&a), "scalar_rule_gives": jd(&c)}));
            }
        }
        s.evals(evals, nontriv);
        let mut g = out.lock().unwrap();
        for (k, v) in local { *g.0.entry(k).or_insert(0) += v; }
        g.1 += evals;
    };
    if n * f.alpha.len() >= 2048 { jobs.par_iter().for_each(body); } else { jobs.iter().for_each(body); }
    let g = out.into_inner().unwrap();
    for (k, v) in g.0 { *tally.entry(k).or_insert(0) += v; }
    *tally.entry(format!("evaluations: {}", f.tag)).or_insert(0) += g.1;
}

fn unflat<T: Copy, const N: usize>(e: &[T]) -> A<T, N> { let mut a = [[e[0]; N]; N]; for i in 0..N { for j in 0..N { a[i][j] = e[i * N + j]; } } a }
fn flat<T: Copy, const N: usize>(a: &A<T, N>) -> Vec<T> { a.iter().flatten().copied().collect() }

// ---------------------------------------------------------------------------------------------------------------
// float lifts: Inv, Euclid
// ---------------------------------------------------------------------------------------------------------------
fn float_lifts<V, T: FloatElem>(s: &Section, t: &mut Tally)
where V: VecN<T> + Copy + Send + Sync + Inv<Output = V> + Euclid {
    let cl = if s.thorough() { T::classes_ext() } else { T::classes() };
    let pairs: Vec<(T, T)> = cl.iter().flat_map(|&a| cl.iter().map(move |&b| (a, b))).collect();
    let nz = |a: T| !(a == T::zero()) ;
    run_flat(s, t, Flat { site: format!("{}<{}>::inv", V::NAME, T::NAME), tag: "inv", n: V::N, alpha: &cl, safe: &|j| T::small(j), bad: None,
        scalar: &|a: T| val(Inv::inv(a)), vector: &|e: &[T]| VOut::Val(Inv::inv(V::from_elems(e.to_vec())).into_elems(), false), predicate: false, interesting: &nz });
    run_flat(s, t, Flat { site: format!("{}<{}>::div_euclid", V::NAME, T::NAME), tag: "float div_euclid", n: V::N, alpha: &pairs, safe: &|j| (T::small(j), T::small(j + 3)), bad: None,
        scalar: &|(a, b): (T, T)| val(Euclid::div_euclid(&a, &b)),
        vector: &|e: &[(T, T)]| { let (a, b): (Vec<T>, Vec<T>) = e.iter().copied().unzip(); VOut::Val(Euclid::div_euclid(&V::from_elems(a), &V::from_elems(b)).into_elems(), false) },
        predicate: false, interesting: &|(a, b)| nz(a) && nz(b) });
    run_flat(s, t, Flat { site: format!("{}<{}>::rem_euclid", V::NAME, T::NAME), tag: "float rem_euclid", n: V::N, alpha: &pairs, safe: &|j| (T::small(j), T::small(j + 3)), bad: None,
        scalar: &|(a, b): (T, T)| val(Euclid::rem_euclid(&a, &b)),
        vector: &|e: &[(T, T)]| { let (a, b): (Vec<T>, Vec<T>) = e.iter().copied().unzip(); VOut::Val(Euclid::rem_euclid(&V::from_elems(a), &V::from_elems(b)).into_elems(), false) },
        predicate: false, interesting: &|(a, b)| nz(a) && nz(b) });
    // equal operands in every position (a, a): once as two separately built equal vectors, once as the very same object on both sides
    let diag: Vec<(T, T)> = cl.iter().map(|&a| (a, a)).collect();
    for same in [false, true] {
        let tag = if same { "float euclid (same object)" } else { "float euclid (equal operands)" };
        for rem in [false, true] {
            run_flat(s, t, Flat { site: format!("{}<{}>::{}", V::NAME, T::NAME, if rem { "rem_euclid" } else { "div_euclid" }), tag, n: V::N, alpha: &diag, safe: &|j| (T::small(j), T::small(j)), bad: None,
                scalar: &|(a, b): (T, T)| val(if rem { Euclid::rem_euclid(&a, &b) } else { Euclid::div_euclid(&a, &b) }),
                vector: &|e: &[(T, T)]| {
                    let (a, b): (Vec<T>, Vec<T>) = e.iter().copied().unzip();
                    let (x, y) = (V::from_elems(a), V::from_elems(b));
                    let r = match (same, rem) { (true, false) => Euclid::div_euclid(&x, &x), (true, true) => Euclid::rem_euclid(&x, &x), (false, false) => Euclid::div_euclid(&x, &y), (false, true) => Euclid::rem_euclid(&x, &y) };
                    VOut::Val(r.into_elems(), false)
                },
                predicate: false, interesting: &|(a, _)| nz(a) });
        }
    }
    *t.entry(V::NAME.to_string()).or_insert(0) += 1;
    *t.entry(T::NAME.to_string()).or_insert(0) += 1;
}

// ---------------------------------------------------------------------------------------------------------------
// Zero / One
// ---------------------------------------------------------------------------------------------------------------
/// `build`/`decode` go through public fields; `one_at(k)`: what One::one() must hold at flat position k
fn zero_one<W, T: Prim>(s: &Section, t: &mut Tally, name: &str, n: usize, build: &(dyn Fn(&[T]) -> W + Sync), decode: &(dyn Fn(W) -> Vec<T> + Sync), one_at: &(dyn Fn(usize) -> T + Sync))
where W: Zero + One + PartialEq + Clone {
    let site = |f: &str| format!("{}<{}>::{}", name, T::NAME, f);
    let all = |v: &[T], f: &dyn Fn(usize, &T) -> bool| v.len() == n && v.iter().enumerate().all(|(k, x)| f(k, x));
    let ones: Vec<T> = (0..n).map(one_at).collect();
    let junk: Vec<T> = (0..n).map(T::small).collect();
    // constructors and the in-place twins
    let fixed: [(&str, Option<Vec<T>>, bool); 4] = [
        ("Zero::zero", s.call(&site("Zero::zero"), || json!(null), || decode(W::zero())), true),
        ("Zero::set_zero", s.call(&site("Zero::set_zero"), || json!(null), || { let mut w = build(&junk); w.set_zero(); decode(w) }), true),
        ("One::one", s.call(&site("One::one"), || json!(null), || decode(W::one())), false),
        ("One::set_one", s.call(&site("One::set_one"), || json!(null), || { let mut w = build(&junk); w.set_one(); decode(w) }), false),
    ];
    for (f, got, zero) in fixed {
        s.eval(true);
        *t.entry(format!("{}: value", f)).or_insert(0) += 1;
        if let Some(g) = got {
            let ok = if zero { all(&g, &|_, x| x.same(&T::zero())) } else { all(&g, &|k, x| x.same(&ones[k])) };
            if !ok { s.violation_w(&site(f), "wrong-element-value", json!({"got": jd(&g), "want": if zero { "all elements T::zero()".to_string() } else { format!("{:?}", ones) }}), n as u64); }
        }
    }
    // is_zero <=> every element is zero (scalar rule: T::is_zero); is_one <=> every element is what one() holds there
    let al = T::alpha();
    let nonzero = al.iter().copied().find(|a| !a.is_zero());
    run_flat(s, t, Flat { site: site("Zero::is_zero"), tag: "is_zero", n, alpha: &al, safe: &|_| T::zero(), bad: nonzero,
        scalar: &|a: T| holds(a.is_zero()), vector: &|e: &[T]| vtruth(n, build(e).is_zero()), predicate: true, interesting: &|_| true });
    // is_one: position-dependent scalar rule (identity matrix), so it is enumerated here directly
    for p in 0..n { for ctx in 0..2 { for &a in &al {
        let mut e = ones.clone();
        if ctx == 1 && n > 1 { e[(p + 1) % n] = T::small(p); }
        e[p] = a;
        let want = (0..n).all(|k| e[k] == ones[k]);
        s.eval(true);
        *t.entry(format!("is_one: {}", want)).or_insert(0) += 1;
        if let Some(g) = s.call(&site("One::is_one"), || jd(&e), || build(&e).is_one()) {
            if g != want { s.violation_w(&site("One::is_one"), if g { "true-although-an-element-fails" } else { "false-although-every-element-holds" }, json!({"elements": jd(&e), "got": g, "want": want}), n as u64); }
        }
    } } }
    // two non-zero elements that cancel: is_zero is false (a sum / dot product over the elements is not the test); two elements different
    // from one whose product is one at places where one() holds T::one(): is_one is false
    if n >= 2 {
        for p in 0..n { for &(u, v) in &T::cancel() {
            let mut e = vec![T::zero(); n]; e[p] = u; e[(p + 1) % n] = v;
            s.eval(true);
            *t.entry("is_zero: false: two non-zero elements cancel".into()).or_insert(0) += 1;
            if let Some(g) = s.call(&site("Zero::is_zero"), || jd(&e), || build(&e).is_zero()) {
                if g { s.violation_w(&site("Zero::is_zero"), "true-although-an-element-fails", json!({"elements": jd(&e), "got": g, "want": false}), n as u64); }
            }
        } }
        let d: Vec<usize> = (0..n).filter(|&k| ones[k].same(&T::one())).collect();
        for w in 0..d.len() { let (p, q) = (d[w], d[(w + 1) % d.len()]); if p == q { continue; } for &(u, v) in &T::unit_pairs() {
            let mut e = ones.clone(); e[p] = u; e[q] = v;
            s.eval(true);
            *t.entry("is_one: false: two elements with product one".into()).or_insert(0) += 1;
            if let Some(g) = s.call(&site("One::is_one"), || jd(&e), || build(&e).is_one()) {
                if g { s.violation_w(&site("One::is_one"), "true-although-an-element-fails", json!({"elements": jd(&e), "got": g, "want": false}), n as u64); }
            }
        } }
    }
    *t.entry(name.to_string()).or_insert(0) += 1;
    *t.entry(T::NAME.to_string()).or_insert(0) += 1;
}
/// the inherent constructors (`Vec::zero()`, `Vec::one()`, `Mat::zero()`, `Mat::identity()`) the trait forms delegate to, called directly
fn inherent_ctor<T: Prim>(s: &Section, t: &mut Tally, name: &str, f: &str, got: Option<Vec<T>>, want: Vec<T>) {
    s.eval(true);
    *t.entry("inherent constructor: value".into()).or_insert(0) += 1;
    if let Some(g) = got {
        if g.len() != want.len() || !g.iter().zip(&want).all(|(a, b)| a.same(b)) { s.violation_w(&format!("{}<{}>::{}", name, T::NAME, f), "wrong-element-value", json!({"got": jd(&g), "want": jd(&want)}), want.len() as u64); }
    }
}
fn zero_one_vec<V, T: Prim>(s: &Section, t: &mut Tally) where V: VecN<T> + Zero + One + PartialEq + Clone {
    zero_one::<V, T>(s, t, V::NAME, V::N, &|e| V::from_elems(e.to_vec()), &|w| w.into_elems(), &|_| T::one());
}
fn zero_one_mat<M, T: Prim, const N: usize>(s: &Section, t: &mut Tally, name: &str) where M: MatIO<T, N> + Zero + One + PartialEq + Clone {
    zero_one::<M, T>(s, t, name, N * N, &|e| M::build(&unflat::<T, N>(e)), &|w| flat(&w.decode()), &|k| if k / N == k % N { T::one() } else { T::zero() });
}

// ---------------------------------------------------------------------------------------------------------------
// casts: as_ (scalar rule: the `as` operator) and numcast (scalar rule: NumCast::from)
// ---------------------------------------------------------------------------------------------------------------
/// alphabet of the cast sections: 0 = class alphabet `alpha()`, 1 = `sweep(false)`, 2 = `sweep(true)` (set by main before a section runs)
static CAST_ALPHABET: std::sync::atomic::AtomicU8 = std::sync::atomic::AtomicU8::new(0);
fn cast_alphabet<S: Prim>() -> Vec<S> { match CAST_ALPHABET.load(std::sync::atomic::Ordering::SeqCst) { 0 => S::alpha(), 1 => S::sweep(false), _ => S::sweep(true) } }
fn cast_flat<S: Prim, D: Prim>(s: &Section, t: &mut Tally, ty: &str, n: usize,
    as_whole: &(dyn Fn(&[S]) -> Vec<D> + Sync), nc_whole: Option<&(dyn Fn(&[S]) -> Option<Vec<D>> + Sync)>, as_scalar: fn(S) -> D) {
    let al = cast_alphabet::<S>();
    let nc = |a: S| opt(<D as NumCast>::from(a));
    let bad = al.iter().copied().find(|&a| nc(a).is_nil());
    let odd = |a: S| nc(a).is_nil() || !a.is_zero();
    run_flat(s, t, Flat { site: format!("{}::as_<{}->{}>", ty, S::NAME, D::NAME), tag: "as_", n, alpha: &al, safe: &|j| S::small(j), bad: None,
        scalar: &|a: S| val(as_scalar(a)), vector: &|e: &[S]| VOut::Val(as_whole(e), false), predicate: false, interesting: &odd });
    *t.entry("as_: source not representable in the target (saturates / wraps / NaN->0)".into()).or_insert(0) += (al.iter().filter(|&&a| nc(a).is_nil()).count() * n) as u64;
    if let Some(ncw) = nc_whole {
        run_flat(s, t, Flat { site: format!("{}::numcast<{}->{}>", ty, S::NAME, D::NAME), tag: "numcast", n, alpha: &al, safe: &|j| S::small(j), bad,
            scalar: &nc, vector: &|e: &[S]| match ncw(e) { Some(v) => VOut::Val(v, false), None => VOut::Nil }, predicate: false, interesting: &odd });
    }
    *t.entry(ty.to_string()).or_insert(0) += 1;
    *t.entry(format!("{}->{}", S::NAME, D::NAME)).or_insert(0) += 1;
}
macro_rules! cast_vecs { ($s:expr, $t:expr, $S:ty => $D:ty; $($V:ident),+) => { $(
    cast_flat::<$S, $D>($s, $t, <$V<$S> as VecN<$S>>::NAME, <$V<$S> as VecN<$S>>::N,
        &|e: &[$S]| <$V<$S> as VecN<$S>>::from_elems(e.to_vec()).as_::<$D>().into_elems(),
        Some(&|e: &[$S]| <$V<$S> as VecN<$S>>::from_elems(e.to_vec()).numcast::<$D>().map(|v| v.into_elems())),
        |a: $S| a as $D);
)+ } }
macro_rules! cast_mat { ($s:expr, $t:expr, $S:ty => $D:ty; $lay:ident $M:ident $N:expr, $name:expr) => {
    cast_flat::<$S, $D>($s, $t, $name, $N * $N,
        &|e: &[$S]| flat(&<$lay::$M<$D> as MatIO<$D, $N>>::decode(&<$lay::$M<$S> as MatIO<$S, $N>>::build(&unflat::<$S, $N>(e)).as_::<$D>())),
        Some(&|e: &[$S]| <$lay::$M<$S> as MatIO<$S, $N>>::build(&unflat::<$S, $N>(e)).numcast::<$D>().map(|m| flat(&<$lay::$M<$D> as MatIO<$D, $N>>::decode(&m)))),
        |a: $S| a as $D);
} }
macro_rules! cast_shapes { ($s:expr, $t:expr, $S:ty => $D:ty) => {
    cast_flat::<$S, $D>($s, $t, "Rect", 4, &|e: &[$S]| { let r = Rect { x: e[0], y: e[1], w: e[2], h: e[3] }.as_::<$D, $D>(); vec![r.x, r.y, r.w, r.h] }, None, |a: $S| a as $D);
    cast_flat::<$S, $D>($s, $t, "Rect3", 6, &|e: &[$S]| { let r = Rect3 { x: e[0], y: e[1], z: e[2], w: e[3], h: e[4], d: e[5] }.as_::<$D, $D>(); vec![r.x, r.y, r.z, r.w, r.h, r.d] }, None, |a: $S| a as $D);
    cast_flat::<$S, $D>($s, $t, "Aabr", 4, &|e: &[$S]| { let r = Aabr { min: Vec2 { x: e[0], y: e[1] }, max: Vec2 { x: e[2], y: e[3] } }.as_::<$D>(); vec![r.min.x, r.min.y, r.max.x, r.max.y] }, None, |a: $S| a as $D);
    cast_flat::<$S, $D>($s, $t, "Aabb", 6, &|e: &[$S]| { let r = Aabb { min: Vec3 { x: e[0], y: e[1], z: e[2] }, max: Vec3 { x: e[3], y: e[4], z: e[5] } }.as_::<$D>(); vec![r.min.x, r.min.y, r.min.z, r.max.x, r.max.y, r.max.z] }, None, |a: $S| a as $D);
    cast_flat::<$S, $D>($s, $t, "LineSegment2", 4, &|e: &[$S]| { let r = LineSegment2 { start: Vec2 { x: e[0], y: e[1] }, end: Vec2 { x: e[2], y: e[3] } }.as_::<$D>(); vec![r.start.x, r.start.y, r.end.x, r.end.y] }, None, |a: $S| a as $D);
    cast_flat::<$S, $D>($s, $t, "LineSegment3", 6, &|e: &[$S]| { let r = LineSegment3 { start: Vec3 { x: e[0], y: e[1], z: e[2] }, end: Vec3 { x: e[3], y: e[4], z: e[5] } }.as_::<$D>(); vec![r.start.x, r.start.y, r.start.z, r.end.x, r.end.y, r.end.z] }, None, |a: $S| a as $D);
} }
/// a core pair: every vector type, every matrix type, every shape
macro_rules! cast_core { ($s:expr, $t:expr, $S:ty => $D:ty) => {
    cast_vecs!($s, $t, $S => $D; Vec2, Vec3, Vec4, Vec8, Vec16, Vec32, Vec64, Extent2, Extent3, Rgb, Rgba, Uv, Uvw);
    cast_mat!($s, $t, $S => $D; rm Mat2 2, "row Mat2"); cast_mat!($s, $t, $S => $D; cm Mat2 2, "col Mat2");
    cast_mat!($s, $t, $S => $D; rm Mat3 3, "row Mat3"); cast_mat!($s, $t, $S => $D; cm Mat3 3, "col Mat3");
    cast_mat!($s, $t, $S => $D; rm Mat4 4, "row Mat4"); cast_mat!($s, $t, $S => $D; cm Mat4 4, "col Mat4");
    cast_shapes!($s, $t, $S => $D);
} }
/// an extended pair: one struct-field vector, one tuple-index vector, one colour vector, one matrix per layout, one shape of each macro
macro_rules! cast_ext { ($s:expr, $t:expr, $S:ty => $D:ty) => {
    cast_vecs!($s, $t, $S => $D; Vec4, Vec8, Rgba);
    cast_mat!($s, $t, $S => $D; rm Mat3 3, "row Mat3"); cast_mat!($s, $t, $S => $D; cm Mat3 3, "col Mat3");
} }
/// a sweep pair: struct-field, tuple-index, colour vector; one matrix per layout (different sizes); one shape of each of the two-vector macros and Rect3
macro_rules! cast_sw { ($s:expr, $t:expr, $S:ty => $D:ty) => {
    cast_vecs!($s, $t, $S => $D; Vec3, Vec8, Rgba);
    cast_mat!($s, $t, $S => $D; rm Mat2 2, "row Mat2"); cast_mat!($s, $t, $S => $D; cm Mat3 3, "col Mat3");
    cast_flat::<$S, $D>($s, $t, "Aabb", 6, &|e: &[$S]| { let r = Aabb { min: Vec3 { x: e[0], y: e[1], z: e[2] }, max: Vec3 { x: e[3], y: e[4], z: e[5] } }.as_::<$D>(); vec![r.min.x, r.min.y, r.min.z, r.max.x, r.max.y, r.max.z] }, None, |a: $S| a as $D);
    cast_flat::<$S, $D>($s, $t, "Rect3", 6, &|e: &[$S]| { let r = Rect3 { x: e[0], y: e[1], z: e[2], w: e[3], h: e[4], d: e[5] }.as_::<$D, $D>(); vec![r.x, r.y, r.z, r.w, r.h, r.d] }, None, |a: $S| a as $D);
    cast_flat::<$S, $D>($s, $t, "LineSegment2", 4, &|e: &[$S]| { let r = LineSegment2 { start: Vec2 { x: e[0], y: e[1] }, end: Vec2 { x: e[2], y: e[3] } }.as_::<$D>(); vec![r.start.x, r.start.y, r.end.x, r.end.y] }, None, |a: $S| a as $D);
} }
/// as_ from the non-numeric primitive sources num_traits::AsPrimitive also covers (bool, char) and towards char
macro_rules! as_misc { ($s:expr, $t:expr, $S:ty => $D:ty, $al:expr, $safe:expr) => {{
    let al: Vec<$S> = $al;
    for_all_vecs!(V => {
        run_flat($s, $t, Flat { site: format!("{}::as_<{}->{}>", <V<$S> as VecN<$S>>::NAME, stringify!($S), stringify!($D)), tag: "as_ bool/char", n: <V<$S> as VecN<$S>>::N, alpha: &al, safe: &$safe, bad: None,
            scalar: &|a: $S| val(a as $D), vector: &|e: &[$S]| VOut::Val(<V<$S> as VecN<$S>>::from_elems(e.to_vec()).as_::<$D>().into_elems(), false), predicate: false, interesting: &|_| true });
        *$t.entry(<V<$S> as VecN<$S>>::NAME.to_string()).or_insert(0) += 1;
    });
    run_flat($s, $t, Flat { site: format!("row Mat3::as_<{}->{}>", stringify!($S), stringify!($D)), tag: "as_ bool/char", n: 9, alpha: &al, safe: &$safe, bad: None,
        scalar: &|a: $S| val(a as $D), vector: &|e: &[$S]| VOut::Val(flat(&dr3(&r3(&unflat::<$S, 3>(e)).as_::<$D>())), false), predicate: false, interesting: &|_| true });
    run_flat($s, $t, Flat { site: format!("col Mat4::as_<{}->{}>", stringify!($S), stringify!($D)), tag: "as_ bool/char", n: 16, alpha: &al, safe: &$safe, bad: None,
        scalar: &|a: $S| val(a as $D), vector: &|e: &[$S]| VOut::Val(flat(&dc4(&c4(&unflat::<$S, 4>(e)).as_::<$D>())), false), predicate: false, interesting: &|_| true });
    run_flat($s, $t, Flat { site: format!("Aabr::as_<{}->{}>", stringify!($S), stringify!($D)), tag: "as_ bool/char", n: 4, alpha: &al, safe: &$safe, bad: None,
        scalar: &|a: $S| val(a as $D), vector: &|e: &[$S]| { let r = Aabr { min: Vec2 { x: e[0], y: e[1] }, max: Vec2 { x: e[2], y: e[3] } }.as_::<$D>(); VOut::Val(vec![r.min.x, r.min.y, r.max.x, r.max.y], false) }, predicate: false, interesting: &|_| true });
    *$t.entry(format!("{}->{}", stringify!($S), stringify!($D))).or_insert(0) += 1;
}} }
/// Rect / Rect3 convert positions and extents with two independent target types
fn rect_mixed(s: &Section, t: &mut Tally) {
    let ps = <f32 as Prim>::alpha();
    let es = <i32 as Prim>::alpha();
    for (k, &p) in ps.iter().enumerate() { for &e in &es {
        let (p2, e2) = (ps[(k + 5) % ps.len()], es[(k + 3) % es.len()]);
        s.eval(true);
        *t.entry("Rect mixed position/extent types".into()).or_insert(0) += 1;
        if let Some(r) = s.call("Rect::as_<f32->i16, i32->u8>", || json!({"p": jd(&p), "e": e}), || Rect { x: p, y: p2, w: e, h: e2 }.as_::<i16, u8>()) {
            if (r.x, r.y, r.w, r.h) != (p as i16, p2 as i16, e as u8, e2 as u8) { s.violation("Rect::as_<f32->i16, i32->u8>", "wrong-element-value", json!({"x": jd(&p), "y": jd(&p2), "w": e, "h": e2, "got": jd(&r)})); }
        }
        if let Some(r) = s.call("Rect3::as_<i32->u8, f32->i16>", || json!({"p": jd(&p), "e": e}), || Rect3 { x: e, y: e2, z: e, w: p, h: p2, d: p }.as_::<u8, i16>()) {
            if (r.x, r.y, r.z, r.w, r.h, r.d) != (e as u8, e2 as u8, e as u8, p as i16, p2 as i16, p as i16) { s.violation("Rect3::as_<i32->u8, f32->i16>", "wrong-element-value", json!({"p": jd(&p), "e": e, "got": jd(&r)})); }
        }
    } }
}

// ---------------------------------------------------------------------------------------------------------------
// approx lifts
// ---------------------------------------------------------------------------------------------------------------
#[derive(Clone, Copy, Debug)]
enum Pred<T> { Abs(T), Rel(T, T), Ulps(T, u32) }
fn scalar_pred<T: FloatElem>(a: T, b: T, p: Pred<T>) -> bool {
    match p { Pred::Abs(e) => T::abs_diff_eq(&a, &b, e), Pred::Rel(e, m) => T::relative_eq(&a, &b, e, m), Pred::Ulps(e, u) => T::ulps_eq(&a, &b, e, u) }
}
fn whole_pred<W, T: FloatElem>(x: &W, y: &W, p: Pred<T>) -> bool where W: AbsDiffEq<Epsilon = T> + RelativeEq + UlpsEq {
    match p { Pred::Abs(e) => x.abs_diff_eq(y, e), Pred::Rel(e, m) => x.relative_eq(y, e, m), Pred::Ulps(e, u) => x.ulps_eq(y, e, u) }
}
/// the negated trait forms abs_diff_ne / relative_ne / ulps_ne
fn whole_pred_ne<W, T: FloatElem>(x: &W, y: &W, p: Pred<T>) -> bool where W: AbsDiffEq<Epsilon = T> + RelativeEq + UlpsEq {
    match p { Pred::Abs(e) => x.abs_diff_ne(y, e), Pred::Rel(e, m) => x.relative_ne(y, e, m), Pred::Ulps(e, u) => x.ulps_ne(y, e, u) }
}
/// scalar predicate as a cell (a panic of the scalar form is an outcome, not a crash of the check)
fn pred_cell<T: FloatElem>(a: T, b: T, p: Pred<T>) -> Cell<()> { match catch(|| scalar_pred(a, b, p)) { Ok(v) => holds(v), Err(_) => Cell { out: Lane::Panic, flag: false } } }
/// whole eq form; the ne form must be its negation (holds exactly when some pair of corresponding elements fails)
/// (at most 3 reports per run, counted in `reported`: the key is the same for every operand)
fn eq_and_ne<W, T: FloatElem>(s: &Section, site: &str, tag: &str, n: usize, ab: (&[T], &[T]), x: &W, y: &W, p: Pred<T>, reported: &std::sync::atomic::AtomicU32) -> VOut<()> where W: AbsDiffEq<Epsilon = T> + RelativeEq + UlpsEq {
    let eq = whole_pred(x, y, p);
    let ne = whole_pred_ne(x, y, p);
    if ne == eq && reported.fetch_add(1, std::sync::atomic::Ordering::Relaxed) < 3 {
        let f = match tag.trim_start_matches("near ").trim_start_matches("self ") { "abs_diff_eq" => "abs_diff_ne", "relative_eq" => "relative_ne", _ => "ulps_ne" };
        s.violation_w(&format!("{}::{}", site, f), "ne-is-not-the-negation-of-eq", json!({"a": jd(&ab.0), "b": jd(&ab.1), "predicate": format!("{:?}", p), "eq": eq, "ne": ne}), n as u64);
    }
    vtruth(n, eq)
}
fn approx_lift<W, T: FloatElem>(s: &Section, t: &mut Tally, name: &str, n: usize, thorough: bool, build: &(dyn Fn(&[T]) -> W + Sync))
where W: AbsDiffEq<Epsilon = T> + RelativeEq + UlpsEq {
    // the defaults are lifted from the element type
    s.eval(true);
    *t.entry("defaults".into()).or_insert(0) += 1;
    let site = format!("{}<{}>", name, T::NAME);
    if let Some((e, m, u)) = s.call(&site, || json!("defaults"), || (W::default_epsilon(), W::default_max_relative(), W::default_max_ulps())) {
        if !(e.same(&T::default_epsilon()) && m.same(&T::default_max_relative()) && u == T::default_max_ulps()) {
            s.violation(&format!("{}::default_epsilon/max_relative/max_ulps", site), "differs-from-element-type", json!({"got": jd(&(e, m, u)), "want": jd(&(T::default_epsilon(), T::default_max_relative(), T::default_max_ulps()))}));
        }
    }
    let cl = if thorough { T::classes_ext() } else { T::classes() };
    let pairs: Vec<(T, T)> = cl.iter().flat_map(|&a| cl.iter().map(move |&b| (a, b))).collect();
    let mut preds: Vec<(&str, Pred<T>)> = Vec::new();
    for e in [T::default_epsilon(), T::zero(), T::of(1e-3)] {
        preds.push(("abs_diff_eq", Pred::Abs(e)));
        preds.push(("relative_eq", Pred::Rel(e, T::default_max_relative()))); preds.push(("relative_eq", Pred::Rel(e, T::of(0.25))));
        preds.push(("ulps_eq", Pred::Ulps(e, T::default_max_ulps()))); preds.push(("ulps_eq", Pred::Ulps(e, 0)));
        if thorough { preds.push(("relative_eq", Pred::Rel(e, T::zero()))); preds.push(("ulps_eq", Pred::Ulps(e, 1 << 22))); preds.push(("abs_diff_eq", Pred::Abs(T::of(2.0) * e))); }
    }
    let reported = std::sync::atomic::AtomicU32::new(0);
    for &(tag, p) in &preds {
        reported.store(0, std::sync::atomic::Ordering::Relaxed);
        run_flat(s, t, Flat { site: format!("{}::{}", site, tag), tag, n, alpha: &pairs, safe: &|j| (T::small(j), T::small(j)), bad: Some((T::one(), T::of(2.0))),
            scalar: &|(a, b): (T, T)| holds(scalar_pred(a, b, p)),
            vector: &|e: &[(T, T)]| { let (a, b): (Vec<T>, Vec<T>) = e.iter().copied().unzip(); eq_and_ne(s, &site, tag, n, (&a, &b), &build(&a), &build(&b), p, &reported) },
            predicate: true, interesting: &|(a, b)| a.to_bits_u64() != b.to_bits_u64() });
    }
    // targeted pairs (k ULPs apart, straddling the relative / absolute thresholds, scaled by 2^+-40 / 2^+-400, sign crossing, non-finite)
    // under the predicates above and under extreme tolerances (infinite, NaN, negative, MAX, subnormal epsilon; max_relative >= 1, inf, NaN;
    // max_ulps 1, 4, 5, 16, u32::MAX); the other positions hold unequal-but-close values in the rotating context
    let near = T::near_pairs();
    let (d, z) = (T::default_epsilon(), T::zero());
    let mut xp: Vec<(&str, Pred<T>)> = preds.iter().map(|&(tag, p)| (match tag { "abs_diff_eq" => "near abs_diff_eq", "relative_eq" => "near relative_eq", _ => "near ulps_eq" }, p)).collect();
    for e in [T::inf(), T::nan(), T::of(-1.0), T::maxv(), T::subn()] { xp.push(("near abs_diff_eq", Pred::Abs(e))); }
    for (e, m) in [(d, T::one()), (d, T::of(2.0)), (z, T::inf()), (z, T::nan()), (T::inf(), z), (T::of(-1.0), T::of(-1.0)), (z, T::of(1e-3)), (T::nan(), T::of(0.25)), (z, T::of(0.5))] { xp.push(("near relative_eq", Pred::Rel(e, m))); }
    for (e, u) in [(z, 1u32), (z, 4), (z, 5), (z, 16), (z, u32::MAX), (T::nan(), 4), (T::inf(), 0), (T::of(-1.0), 2), (T::subn(), 1)] { xp.push(("near ulps_eq", Pred::Ulps(e, u))); }
    let dev = |&(a, b): &(T, T)| -> f64 { let d = (a.to_f64().unwrap_or(f64::NAN) - b.to_f64().unwrap_or(f64::NAN)).abs(); if d.is_finite() { d } else { -1.0 } };
    for &(tag, p) in &xp {
        reported.store(0, std::sync::atomic::Ordering::Relaxed);
        // 4th context: every other position holds a different unequal pair on which the scalar predicate still holds, largest deviations first
        let mut pool: Vec<(T, T)> = near.iter().copied().filter(|&(a, b)| a.to_bits_u64() != b.to_bits_u64() && matches!(pred_cell(a, b, p).out, Lane::Val(_))).collect();
        pool.sort_by(|x, y| dev(y).partial_cmp(&dev(x)).unwrap());
        run_flat_x(s, t, Flat { site: format!("{}::{}", site, tag.trim_start_matches("near ")), tag, n, alpha: &near, safe: &|j| (T::small(j), T::small(j)), bad: Some((T::of(3.5), T::of(-7.5))),
            scalar: &|(a, b): (T, T)| pred_cell(a, b, p),
            vector: &|e: &[(T, T)]| { let (a, b): (Vec<T>, Vec<T>) = e.iter().copied().unzip(); eq_and_ne(s, &site, tag, n, (&a, &b), &build(&a), &build(&b), p, &reported) },
            predicate: true, interesting: &|(a, b)| a.to_bits_u64() != b.to_bits_u64() }, &pool);
    }
    // the very same object on both sides (x.abs_diff_eq(&x, ..)): per element the scalar predicate of (a, a), which fails for NaN, for infinities
    // under abs_diff_eq, and under negative / NaN tolerances
    let mut selfs: Vec<T> = cl.clone();
    for &(a, _) in &near { if !selfs.iter().any(|o| o.to_bits_u64() == a.to_bits_u64()) { selfs.push(a); } }
    for &(tag, p) in &xp {
        reported.store(0, std::sync::atomic::Ordering::Relaxed);
        let tag = match tag { "near abs_diff_eq" => "self abs_diff_eq", "near relative_eq" => "self relative_eq", _ => "self ulps_eq" };
        let failing = selfs.iter().copied().find(|&a| !matches!(pred_cell(a, a, p).out, Lane::Val(_)));
        run_flat(s, t, Flat { site: format!("{}::{}", site, tag.trim_start_matches("self ")), tag, n, alpha: &selfs, safe: &|j| T::small(j), bad: failing,
            scalar: &|a: T| pred_cell(a, a, p),
            vector: &|e: &[T]| { let x = build(e); eq_and_ne(s, &site, tag, n, (e, e), &x, &x, p, &reported) },
            predicate: true, interesting: &|_| true });
    }
    *t.entry(name.to_string()).or_insert(0) += 1;
    *t.entry(T::NAME.to_string()).or_insert(0) += 1;
}
/// AbsDiffEq on integer elements (the only approx trait the integers implement; Epsilon = the element type)
fn approx_int<W, T: IntElem + AbsDiffEq<Epsilon = T>>(s: &Section, t: &mut Tally, name: &str, n: usize, build: &(dyn Fn(&[T]) -> W + Sync)) where W: AbsDiffEq<Epsilon = T> {
    let site = format!("{}<{}>", name, T::NAME);
    s.eval(true);
    *t.entry("defaults".into()).or_insert(0) += 1;
    if let Some(e) = s.call(&site, || json!("default_epsilon"), || W::default_epsilon()) {
        if e != T::default_epsilon() { s.violation(&format!("{}::default_epsilon", site), "differs-from-element-type", json!({"got": jd(&e), "want": jd(&T::default_epsilon())})); }
    }
    let (lo, hi) = (T::min_v(), T::max_v());
    let al = in_range::<T>(vec![lo, lo + 1, lo / 2, -8, -1, 0, 1, 7, 8, hi / 2, hi / 2 + 8, hi - 1, hi]);
    let pairs: Vec<(T, T)> = al.iter().flat_map(|&a| al.iter().map(move |&b| (a, b))).collect();
    // a negative epsilon (signed types): every scalar predicate is false, also on (a, a)
    let mut epsilons = vec![T::zero(), T::of(7), T::of(T::max_v())];
    if T::SIGNED { epsilons.push(T::of(-1)); }
    for e in epsilons {
        let reported = std::sync::atomic::AtomicU32::new(0);
        run_flat_x(s, t, Flat { site: format!("{}::abs_diff_eq", site), tag: "int abs_diff_eq", n, alpha: &pairs, safe: &|j| (T::small(j), T::small(j)), bad: Some((T::zero(), T::of(100))),
            scalar: &|(a, b): (T, T)| match catch(|| T::abs_diff_eq(&a, &b, e)) { Ok(v) => holds(v), Err(_) => Cell { out: Lane::Panic, flag: false } },
            vector: &|el: &[(T, T)]| {
                let (a, b): (Vec<T>, Vec<T>) = el.iter().copied().unzip();
                let (x, y) = (build(&a), build(&b));
                let eq = x.abs_diff_eq(&y, e);
                if x.abs_diff_ne(&y, e) == eq && reported.fetch_add(1, std::sync::atomic::Ordering::Relaxed) < 3 { s.violation_w(&format!("{}::abs_diff_ne", site), "ne-is-not-the-negation-of-eq", json!({"a": jd(&a), "b": jd(&b), "epsilon": jd(&e)}), n as u64); }
                vtruth(n, eq)
            },
            predicate: true, interesting: &|(a, b)| a != b }, &{
                let mut pool: Vec<(T, T)> = pairs.iter().copied().filter(|&(a, b)| a != b && matches!(catch(|| T::abs_diff_eq(&a, &b, e)), Ok(true))).collect();
                pool.sort_by_key(|&(a, b)| -(a.wide() - b.wide()).abs());
                pool });
        // the very same object on both sides
        run_flat(s, t, Flat { site: format!("{}::abs_diff_eq", site), tag: "int self abs_diff_eq", n, alpha: &al, safe: &|j| T::small(j), bad: None,
            scalar: &|a: T| match catch(|| T::abs_diff_eq(&a, &a, e)) { Ok(v) => holds(v), Err(_) => Cell { out: Lane::Panic, flag: false } },
            vector: &|el: &[T]| { let x = build(el); let eq = x.abs_diff_eq(&x, e); if x.abs_diff_ne(&x, e) == eq && reported.fetch_add(1, std::sync::atomic::Ordering::Relaxed) < 3 { s.violation_w(&format!("{}::abs_diff_ne", site), "ne-is-not-the-negation-of-eq", json!({"a": jd(&el), "b": "the same object", "epsilon": jd(&e)}), n as u64); } vtruth(n, eq) },
            predicate: true, interesting: &|_| true });
    }
    *t.entry(name.to_string()).or_insert(0) += 1;
    *t.entry(T::NAME.to_string()).or_insert(0) += 1;
}
// ---- opaque probe element: the approx lifts can only call the element's own predicates; the probe's predicates hold exactly when they are
// called on (element k of self, element k of other) in this order, with exactly the tolerances handed to the lifted form; `==` on probes is
// always true (equality says nothing about the approximate predicates); the three defaults are pairwise different
#[derive(Clone, Copy, Debug)]
struct Probe { id: u16, ok: bool }
impl PartialEq for Probe { fn eq(&self, _o: &Probe) -> bool { true } }
const P_EPS: f64 = 0.3; const P_REL: f64 = 0.7; const P_ULPS: u32 = 11;
const P_DEFAULTS: (f64, f64, u32) = (0.125, 0.5, 7);
/// An operation the approx lifts have no business calling: negation "repairs" a failing element (ok = true), so a lifted predicate that also
/// accepts a negated operand shows as true-although-an-element-fails.  (The impl also keeps this harness compiling if a change narrows an
/// approx impl's bound to `T: Neg`; that narrowing itself is reported by the digest program of the feature matrix, which uses an element
/// type that implements the three approx traits and nothing else.)
impl std::ops::Neg for Probe { type Output = Probe; fn neg(self) -> Probe { Probe { id: self.id, ok: true } } }
impl Probe { fn pair(&self, o: &Probe) -> bool { self.ok && o.ok && self.id + 1000 == o.id } }
impl AbsDiffEq for Probe { type Epsilon = f64; fn default_epsilon() -> f64 { P_DEFAULTS.0 } fn abs_diff_eq(&self, o: &Probe, e: f64) -> bool { self.pair(o) && e == P_EPS } }
impl RelativeEq for Probe { fn default_max_relative() -> f64 { P_DEFAULTS.1 } fn relative_eq(&self, o: &Probe, e: f64, m: f64) -> bool { self.pair(o) && e == P_EPS && m == P_REL } }
impl UlpsEq for Probe { fn default_max_ulps() -> u32 { P_DEFAULTS.2 } fn ulps_eq(&self, o: &Probe, e: f64, u: u32) -> bool { self.pair(o) && e == P_EPS && u == P_ULPS } }
fn probe_lift<W>(s: &Section, t: &mut Tally, name: &str, n: usize, build: &dyn Fn(&[Probe]) -> W) where W: AbsDiffEq<Epsilon = f64> + RelativeEq + UlpsEq {
    let site = format!("{}<probe>", name);
    s.eval(true);
    *t.entry("probe: defaults".into()).or_insert(0) += 1;
    if let Some(d) = s.call(&site, || json!("defaults"), || (W::default_epsilon(), W::default_max_relative(), W::default_max_ulps())) {
        if d != P_DEFAULTS { s.violation(&format!("{}::default_epsilon/max_relative/max_ulps", site), "differs-from-element-type", json!({"got": jd(&d), "want": jd(&P_DEFAULTS)})); }
    }
    let left = |bad: Option<usize>| -> Vec<Probe> { (0..n).map(|k| Probe { id: k as u16, ok: bad != Some(k) }).collect() };
    let right = |bad: Option<usize>, shift: usize| -> Vec<Probe> { (0..n).map(|k| Probe { id: 1000 + ((k + shift) % n) as u16, ok: bad != Some(k) }).collect() };
    let mut cases: Vec<(String, Vec<Probe>, Vec<Probe>, bool)> = vec![("every pair of corresponding elements holds".into(), left(None), right(None, 0), true)];
    for k in 0..n {
        cases.push((format!("left element {} fails", k), left(Some(k)), right(None, 0), false));
        cases.push((format!("right element {} fails", k), left(None), right(Some(k), 0), false));
    }
    if n >= 2 { cases.push(("right operand rotated by one position".into(), left(None), right(None, 1), false)); }
    cases.push(("operands exchanged".into(), right(None, 0), left(None), false));
    let preds: [(&str, Pred<f64>, bool); 10] = [
        ("abs_diff_eq", Pred::Abs(P_EPS), true), ("abs_diff_eq", Pred::Abs(P_REL), false), ("abs_diff_eq", Pred::Abs(P_DEFAULTS.0), false),
        ("relative_eq", Pred::Rel(P_EPS, P_REL), true), ("relative_eq", Pred::Rel(P_REL, P_EPS), false), ("relative_eq", Pred::Rel(P_EPS, P_EPS), false), ("relative_eq", Pred::Rel(P_EPS, P_DEFAULTS.1), false),
        ("ulps_eq", Pred::Ulps(P_EPS, P_ULPS), true), ("ulps_eq", Pred::Ulps(P_REL, P_ULPS), false), ("ulps_eq", Pred::Ulps(P_EPS, P_DEFAULTS.2), false)];
    for (what, a, b, elems_ok) in &cases { for &(f, p, args_ok) in &preds {
        let want = *elems_ok && args_ok;
        s.eval(true);
        *t.entry((if want { "probe: holds" } else if *elems_ok { "probe: false: tolerances are not the ones the element accepts" } else { "probe: false: an element pair fails" }).into()).or_insert(0) += 1;
        let (x, y) = (build(a), build(b));
        if let Some((eq, ne)) = s.call(&format!("{}::{}", site, f), || json!({"case": what, "predicate": format!("{:?}", p)}), || (whole_pred(&x, &y, p), whole_pred_ne(&x, &y, p))) {
            if eq != want { s.violation_w(&format!("{}::{}", site, f), if eq { "true-although-an-element-fails" } else { "false-although-every-element-holds" }, json!({"case": what, "predicate": format!("{:?}", p), "accepted": format!("epsilon {} max_relative {} max_ulps {}", P_EPS, P_REL, P_ULPS), "got": eq, "want": want}), n as u64); }
            if ne == eq { s.violation_w(&format!("{}::{}", site, f.replace("_eq", "_ne")), "ne-is-not-the-negation-of-eq", json!({"case": what, "predicate": format!("{:?}", p), "eq": eq, "ne": ne}), n as u64); }
        }
    } }
    *t.entry(name.to_string()).or_insert(0) += 1;
}
/// the wrapping lifts on `Wrapping<_>` elements (num_traits implements Wrapping{Add,Sub,Mul,Neg} for them)
fn wrapping_elems<V, E>(s: &Section, t: &mut Tally, ename: &str, all: &[E], bnd: &[E])
where V: VecN<E> + WrappingAdd + WrappingSub + WrappingMul + WrappingNeg, E: Copy + Debug + Same + Send + Sync + WrappingAdd + WrappingSub + WrappingMul + WrappingNeg {
    let pairs: Vec<(E, E)> = all.iter().flat_map(|&a| bnd.iter().map(move |&b| (a, b))).chain(bnd.iter().flat_map(|&a| all.iter().map(move |&b| (a, b)))).collect();
    let safe = |j: usize| (all[(j * 37 + 5) % all.len()], all[(j * 11 + 3) % all.len()]);
    let ops: [(&str, fn(&E, &E) -> E, fn(&V, &V) -> V); 4] = [
        ("wrapping_add", |a, b| WrappingAdd::wrapping_add(a, b), |x, y| WrappingAdd::wrapping_add(x, y)), ("wrapping_sub", |a, b| WrappingSub::wrapping_sub(a, b), |x, y| WrappingSub::wrapping_sub(x, y)),
        ("wrapping_mul", |a, b| WrappingMul::wrapping_mul(a, b), |x, y| WrappingMul::wrapping_mul(x, y)), ("wrapping_neg", |a, _b| WrappingNeg::wrapping_neg(a), |x, _y| WrappingNeg::wrapping_neg(x))];
    for (name, sc, ve) in ops {
        run_flat(s, t, Flat { site: format!("{}<{}>::{}", V::NAME, ename, name), tag: name, n: V::N, alpha: &pairs, safe: &safe, bad: None,
            scalar: &|(a, b): (E, E)| val(sc(&a, &b)),
            vector: &|e: &[(E, E)]| { let (a, b): (Vec<E>, Vec<E>) = e.iter().copied().unzip(); VOut::Val(ve(&V::from_elems(a), &V::from_elems(b)).into_elems(), false) },
            predicate: false, interesting: &|_| true });
    }
    *t.entry(V::NAME.to_string()).or_insert(0) += 1;
    *t.entry(ename.to_string()).or_insert(0) += 1;
}
trait Bits { fn to_bits_u64(self) -> u64; }
impl Bits for f32 { fn to_bits_u64(self) -> u64 { self.to_bits() as u64 } }
impl Bits for f64 { fn to_bits_u64(self) -> u64 { self.to_bits() } }

// ---------------------------------------------------------------------------------------------------------------
// mint helpers (struct literals / field access on the mint side too)
// ---------------------------------------------------------------------------------------------------------------
fn mrow2<T: Copy>(a: &A<T, 2>) -> mint::RowMatrix2<T> { let v = |i: usize| mint::Vector2 { x: a[i][0], y: a[i][1] }; mint::RowMatrix2 { x: v(0), y: v(1) } }
fn mcol2<T: Copy>(a: &A<T, 2>) -> mint::ColumnMatrix2<T> { let v = |j: usize| mint::Vector2 { x: a[0][j], y: a[1][j] }; mint::ColumnMatrix2 { x: v(0), y: v(1) } }
fn drow2<T: Copy>(m: &mint::RowMatrix2<T>) -> A<T, 2> { [[m.x.x, m.x.y], [m.y.x, m.y.y]] }
fn dcol2<T: Copy>(m: &mint::ColumnMatrix2<T>) -> A<T, 2> { [[m.x.x, m.y.x], [m.x.y, m.y.y]] }
fn mrow3<T: Copy>(a: &A<T, 3>) -> mint::RowMatrix3<T> { let v = |i: usize| mint::Vector3 { x: a[i][0], y: a[i][1], z: a[i][2] }; mint::RowMatrix3 { x: v(0), y: v(1), z: v(2) } }
fn mcol3<T: Copy>(a: &A<T, 3>) -> mint::ColumnMatrix3<T> { let v = |j: usize| mint::Vector3 { x: a[0][j], y: a[1][j], z: a[2][j] }; mint::ColumnMatrix3 { x: v(0), y: v(1), z: v(2) } }
fn drow3<T: Copy>(m: &mint::RowMatrix3<T>) -> A<T, 3> { [[m.x.x, m.x.y, m.x.z], [m.y.x, m.y.y, m.y.z], [m.z.x, m.z.y, m.z.z]] }
fn dcol3<T: Copy>(m: &mint::ColumnMatrix3<T>) -> A<T, 3> { [[m.x.x, m.y.x, m.z.x], [m.x.y, m.y.y, m.z.y], [m.x.z, m.y.z, m.z.z]] }
fn mrow4<T: Copy>(a: &A<T, 4>) -> mint::RowMatrix4<T> { let v = |i: usize| mint::Vector4 { x: a[i][0], y: a[i][1], z: a[i][2], w: a[i][3] }; mint::RowMatrix4 { x: v(0), y: v(1), z: v(2), w: v(3) } }
fn mcol4<T: Copy>(a: &A<T, 4>) -> mint::ColumnMatrix4<T> { let v = |j: usize| mint::Vector4 { x: a[0][j], y: a[1][j], z: a[2][j], w: a[3][j] }; mint::ColumnMatrix4 { x: v(0), y: v(1), z: v(2), w: v(3) } }
fn drow4<T: Copy>(m: &mint::RowMatrix4<T>) -> A<T, 4> { [[m.x.x, m.x.y, m.x.z, m.x.w], [m.y.x, m.y.y, m.y.z, m.y.w], [m.z.x, m.z.y, m.z.z, m.z.w], [m.w.x, m.w.y, m.w.z, m.w.w]] }
fn dcol4<T: Copy>(m: &mint::ColumnMatrix4<T>) -> A<T, 4> { [[m.x.x, m.y.x, m.z.x, m.w.x], [m.x.y, m.y.y, m.z.y, m.w.y], [m.x.z, m.y.z, m.z.z, m.w.z], [m.x.w, m.y.w, m.z.w, m.w.w]] }
fn symmat<const N: usize>() -> A<Sym, N> { let mut a = [[Sym(0); N]; N]; for i in 0..N { for j in 0..N { a[i][j] = Sym(100 + (10 * i + j) as u16); } } a }
fn expect_eq<T: PartialEq + Debug>(s: &Section, t: &mut Tally, site: &str, class: &str, got: Option<T>, want: T) {
    s.eval(true);
    *t.entry(class.to_string()).or_insert(0) += 1;
    if let Some(g) = got { if g != want { s.violation(site, "element-moved", json!({"got": jd(&g), "want": jd(&want)})); } }
}
macro_rules! mint_vec { ($s:expr, $t:expr, $V:ident, $MV:ident, [$($f:ident)+]) => {{
    let mut k = 0usize; $( let $f = Sym(100 + k as u16); k += 1; )+ let _ = k;
    let site = concat!(stringify!($V), " <-> mint::", stringify!($MV));
    expect_eq($s, $t, &format!("{} (into)", site), "vek vector -> mint", $s.call(site, || json!(null), || { let m: mint::$MV<Sym> = $V { $($f),+ }.into(); [$(m.$f),+] }), [$($f),+]);
    expect_eq($s, $t, &format!("{} (from)", site), "mint -> vek vector", $s.call(site, || json!(null), || { let v: $V<Sym> = $V::from(mint::$MV { $($f),+ }); [$(v.$f),+] }), [$($f),+]);
}} }
macro_rules! mint_mat { ($s:expr, $t:expr, $N:expr, $lay:ident $M:ident, $MR:ident $MC:ident, $mrow:ident $mcol:ident $drow:ident $dcol:ident) => {{
    let a = symmat::<$N>();
    let name = format!("{} {}", if stringify!($lay) == "rm" { "row" } else { "col" }, stringify!($M));
    let b = || <$lay::$M<Sym> as MatIO<Sym, $N>>::build(&a);
    expect_eq($s, $t, &format!("{} -> mint::{}", name, stringify!($MR)), &name, $s.call(&name, || json!(null), || { let m: mint::$MR<Sym> = b().into(); $drow(&m) }), a);
    expect_eq($s, $t, &format!("{} -> mint::{}", name, stringify!($MC)), &name, $s.call(&name, || json!(null), || { let m: mint::$MC<Sym> = b().into(); $dcol(&m) }), a);
    expect_eq($s, $t, &format!("mint::{} -> {}", stringify!($MR), name), &name, $s.call(&name, || json!(null), || <$lay::$M<Sym>>::from($mrow(&a)).decode()), a);
    expect_eq($s, $t, &format!("mint::{} -> {}", stringify!($MC), name), &name, $s.call(&name, || json!(null), || <$lay::$M<Sym>>::from($mcol(&a)).decode()), a);
}} }

// ---------------------------------------------------------------------------------------------------------------
// bytemuck
// ---------------------------------------------------------------------------------------------------------------
/// `order[k]` = index (in build order) of the element expected at memory slot k
fn pod_check<W, T>(s: &Section, t: &mut Tally, name: &str, n: usize, build: &dyn Fn(&[T]) -> W, decode: &dyn Fn(&W) -> Vec<T>, order: &dyn Fn(usize) -> usize)
where W: bytemuck::Pod, T: bytemuck::Pod + Prim {
    let site = format!("{}<{}>", name, T::NAME);
    let e1: Vec<T> = (0..n).map(T::lab).collect();
    let e2: Vec<T> = (0..n).map(|k| T::lab((k + 40) % 120)).collect();
    let mem = |e: &[T]| -> Vec<T> { (0..n).map(|k| e[order(k)]).collect() };
    let zero_bytes = |x: &T| bytemuck::bytes_of(x).iter().all(|b| *b == 0);
    let mut chk = |what: &str, ok: Option<bool>, detail: Value| {
        s.eval(true);
        *t.entry(what.to_string()).or_insert(0) += 1;
        if ok == Some(false) { s.violation(&format!("{} {}", site, what), "wrong-layout-or-value", detail); }
    };
    chk("Zeroable::zeroed", s.call(&site, || json!("zeroed"), || { let d = decode(&<W as bytemuck::Zeroable>::zeroed()); d.len() == n && d.iter().all(zero_bytes) }), json!("some element of zeroed() is not the all-zero bit pattern"));
    chk("size_of", Some(std::mem::size_of::<W>() == n * std::mem::size_of::<T>()), json!({"size_of": std::mem::size_of::<W>(), "elements": n}));
    chk("Pod cast_slice to elements", s.call(&site, || json!("cast_slice"), || { let ws = [build(&e1), build(&e2)]; let f: &[T] = bytemuck::cast_slice(&ws); f.to_vec() == [mem(&e1), mem(&e2)].concat() }), json!({"elements": jd(&e1), "want_memory_order": jd(&mem(&e1))}));
    chk("Pod cast_slice from elements", s.call(&site, || json!("cast_slice back"), || { let f = [mem(&e1), mem(&e2)].concat(); let ws: &[W] = bytemuck::cast_slice(&f); ws.len() == 2 && decode(&ws[0]) == e1 && decode(&ws[1]) == e2 }), json!({"memory": jd(&mem(&e1))}));
    chk("Pod bytes_of", s.call(&site, || json!("bytes_of"), || { let w = build(&e1); let want: Vec<u8> = mem(&e1).iter().flat_map(|x| bytemuck::bytes_of(x).to_vec()).collect(); bytemuck::bytes_of(&w) == &want[..] }), json!({"elements": jd(&e1)}));
    *t.entry(name.to_string()).or_insert(0) += 1;
    *t.entry(T::NAME.to_string()).or_insert(0) += 1;
}
fn pod_vec<V, T>(s: &Section, t: &mut Tally) where V: VecN<T> + bytemuck::Pod, T: bytemuck::Pod + Prim {
    pod_check::<V, T>(s, t, V::NAME, V::N, &|e| V::from_elems(e.to_vec()), &|w| (*w).into_elems(), &|k| k);
}
fn pod_mat<M, T, const N: usize>(s: &Section, t: &mut Tally, name: &str, col_major: bool) where M: MatIO<T, N> + bytemuck::Pod, T: bytemuck::Pod + Prim {
    pod_check::<M, T>(s, t, name, N * N, &|e| M::build(&unflat::<T, N>(e)), &|w| flat(&w.decode()), &|k| if col_major { (k % N) * N + k / N } else { k });
}

// ---------------------------------------------------------------------------------------------------------------
// az casts (harness feature `az`)
// ---------------------------------------------------------------------------------------------------------------
#[cfg(feature = "az")]
fn az_flat<S: Prim, D: Prim>(s: &Section, t: &mut Tally, ty: &str, n: usize, name: &'static str, scalar: &(dyn Fn(S) -> Cell<D> + Sync), whole: &(dyn Fn(&[S]) -> VOut<D> + Sync)) {
    let al = if s.thorough() { S::sweep(false) } else { S::alpha() };   // thorough: every 8-bit value, the 16-bit comb, +-2^k+-1, the float pattern comb
    // an element on which the scalar cast fails (None / flag / panic), if the pair has one
    let bad = al.iter().copied().find(|&a| { let c = scalar(a); c.is_nil() || c.is_panic() || c.flag });
    run_flat(s, t, Flat { site: format!("{}::{}<{}->{}>", ty, name, S::NAME, D::NAME), tag: name, n, alpha: &al, safe: &|j| S::small(j), bad,
        scalar, vector: whole, predicate: false, interesting: &|a: S| !a.is_zero() });
    *t.entry(ty.to_string()).or_insert(0) += 1;
    *t.entry(format!("{}->{}", S::NAME, D::NAME)).or_insert(0) += 1;
}
#[cfg(feature = "az")]
macro_rules! az_vecs3 { ($s:expr, $t:expr, $S:ty => $D:ty; $($V:ident),+) => { $( {
    let (ty, n) = (<$V<$S> as VecN<$S>>::NAME, <$V<$S> as VecN<$S>>::N);
    let b = |e: &[$S]| <$V<$S> as VecN<$S>>::from_elems(e.to_vec());
    az_flat::<$S, $D>($s, $t, ty, n, "az", &|a: $S| pan(|| az::cast::<$S, $D>(a)), &|e: &[$S]| VOut::Val(b(e).az::<$D>().into_elems(), false));
    az_flat::<$S, $D>($s, $t, ty, n, "checked_as", &|a: $S| opt(az::checked_cast::<$S, $D>(a)), &|e: &[$S]| match b(e).checked_as::<$D>() { Some(v) => VOut::Val(v.into_elems(), false), None => VOut::Nil });
    az_flat::<$S, $D>($s, $t, ty, n, "unwrapped_as", &|a: $S| pan(|| az::unwrapped_cast::<$S, $D>(a)), &|e: &[$S]| VOut::Val(b(e).unwrapped_as::<$D>().into_elems(), false));
    // the trait forms the inherent methods delegate to, called directly
    az_flat::<$S, $D>($s, $t, ty, n, "Cast::cast", &|a: $S| pan(|| az::cast::<$S, $D>(a)), &|e: &[$S]| VOut::Val(<$V<$S> as az::Cast<$V<$D>>>::cast(b(e)).into_elems(), false));
    az_flat::<$S, $D>($s, $t, ty, n, "CheckedCast::checked_cast", &|a: $S| opt(az::checked_cast::<$S, $D>(a)), &|e: &[$S]| match <$V<$S> as az::CheckedCast<$V<$D>>>::checked_cast(b(e)) { Some(v) => VOut::Val(v.into_elems(), false), None => VOut::Nil });
    az_flat::<$S, $D>($s, $t, ty, n, "UnwrappedCast::unwrapped_cast", &|a: $S| pan(|| az::unwrapped_cast::<$S, $D>(a)), &|e: &[$S]| VOut::Val(<$V<$S> as az::UnwrappedCast<$V<$D>>>::unwrapped_cast(b(e)).into_elems(), false));
} )+ } }
#[cfg(feature = "az")]
macro_rules! az_vecs { ($s:expr, $t:expr, $S:ty => $D:ty; $($V:ident),+) => { az_vecs3!($s, $t, $S => $D; $($V),+); $( {
    let (ty, n) = (<$V<$S> as VecN<$S>>::NAME, <$V<$S> as VecN<$S>>::N);
    let b = |e: &[$S]| <$V<$S> as VecN<$S>>::from_elems(e.to_vec());
    az_flat::<$S, $D>($s, $t, ty, n, "saturating_as", &|a: $S| pan(|| az::saturating_cast::<$S, $D>(a)), &|e: &[$S]| VOut::Val(b(e).saturating_as::<$D>().into_elems(), false));
    az_flat::<$S, $D>($s, $t, ty, n, "wrapping_as", &|a: $S| pan(|| az::wrapping_cast::<$S, $D>(a)), &|e: &[$S]| VOut::Val(b(e).wrapping_as::<$D>().into_elems(), false));
    az_flat::<$S, $D>($s, $t, ty, n, "overflowing_as", &|a: $S| match catch(|| az::overflowing_cast::<$S, $D>(a)) { Ok(r) => flg(r), Err(_) => Cell { out: Lane::Panic, flag: false } },
        &|e: &[$S]| { let (v, f) = b(e).overflowing_as::<$D>(); VOut::Val(v.into_elems(), f) });
    az_flat::<$S, $D>($s, $t, ty, n, "SaturatingCast::saturating_cast", &|a: $S| pan(|| az::saturating_cast::<$S, $D>(a)), &|e: &[$S]| VOut::Val(<$V<$S> as az::SaturatingCast<$V<$D>>>::saturating_cast(b(e)).into_elems(), false));
    az_flat::<$S, $D>($s, $t, ty, n, "WrappingCast::wrapping_cast", &|a: $S| pan(|| az::wrapping_cast::<$S, $D>(a)), &|e: &[$S]| VOut::Val(<$V<$S> as az::WrappingCast<$V<$D>>>::wrapping_cast(b(e)).into_elems(), false));
    az_flat::<$S, $D>($s, $t, ty, n, "OverflowingCast::overflowing_cast", &|a: $S| match catch(|| az::overflowing_cast::<$S, $D>(a)) { Ok(r) => flg(r), Err(_) => Cell { out: Lane::Panic, flag: false } },
        &|e: &[$S]| { let (v, f) = <$V<$S> as az::OverflowingCast<$V<$D>>>::overflowing_cast(b(e)); VOut::Val(v.into_elems(), f) });
} )+ } }

// ---- explorer F: cargo feature configurations (results produced by checks/c20_driver.py) ----
fn feature_matrix(rep: &Report) {
    let rule = "every cargo feature configuration of the tier's list ({std,libm} x bare / singletons / pairs / full set of the 14 optional features) is built from /repo's working tree together with a digest program that uses only always-present items; the program is run and each of its observation lines compared with the bare configuration of the same base; non-trivial: a configuration with at least one optional feature";
    rep.section("feature configurations build and do not change behaviour", rule, true, false, |s| {
        s.require_classes(&["bare", "singleton", "pair", "full-set", "base std", "base libm"]);
        let Ok(path) = std::env::var("VX_C20_FEATURES") else { s.rep.machinery_error("VX_C20_FEATURES not set: run C20 through ./run C20 (checks/c20_driver.py)".into()); return; };
        let Ok(txt) = std::fs::read_to_string(&path) else { s.rep.machinery_error(format!("cannot read {}", path)); return; };
        let Ok(v) = serde_json::from_str::<serde_json::Value>(&txt) else { s.rep.machinery_error(format!("cannot parse {}", path)); return; };
        let cfgs = v["configurations"].as_array().cloned().unwrap_or_default();
        let mut digests = std::collections::BTreeSet::new();
        let mut built = 0u64;
        let (mut featcheck_cfgs, mut featcheck_evals) = (0u64, 0u64);
        s.require_classes(&["feature-only sweep ran (image::Pixel impls vs the image crate)"]);
        for c in &cfgs {
            let base = c["base"].as_str().unwrap_or("?");
            let feats: Vec<&str> = c["features"].as_array().map(|a| a.iter().filter_map(|x| x.as_str()).collect()).unwrap_or_default();
            let name = format!("cargo features [{}{}{}]", base, if feats.is_empty() { "" } else { "," }, feats.join(","));
            s.eval(!feats.is_empty());
            s.class(match feats.len() { 0 => "bare", 1 => "singleton", 2 => "pair", _ => "full-set" });
            s.class(&format!("base {}", base));
            if c["build_ok"] != true {
                s.violation_w(&name, "does-not-build", json!({"configuration": name, "error_in": c["error_in"], "errors": c["errors"], "stderr_tail": c["stderr_tail"]}), feats.len() as u64);
                continue;
            }
            built += 1;
            if c["run_ok"] != true { s.violation_w(&name, "digest-program-fails", json!({"configuration": name, "error": c["run_error"]}), feats.len() as u64); continue; }
            if c["compiled_for_matches_request"] != true { s.rep.machinery_error(format!("the digest binary run for {} was compiled for {:?}", name, c["compiled_for"])); }
            if c["n_lines"].as_u64().unwrap_or(0) < 100 { s.rep.machinery_error(format!("digest program printed only {} lines under {}", c["n_lines"], name)); }
            if let Some(sha) = c["sha"].as_str() { digests.insert(format!("{}:{}", base, sha)); }
            if c["diff_count"].as_u64().unwrap_or(0) > 0 {
                s.violation_w(&name, "behaviour-changed", json!({"configuration": name, "changed_observations": c["diff_count"], "first": c["diff"]}), feats.len() as u64);
            }
            let fcf = c["featcheck_fail"].as_array().cloned().unwrap_or_default();
            if !fcf.is_empty() {
                s.violation_w(&name, "feature-item-misbehaves", json!({"configuration": name, "failed_sweeps": fcf}), feats.len() as u64);
            }
            if c["featcheck_expected"] == true {
                s.class("feature-only sweep ran (image::Pixel impls vs the image crate)");
                featcheck_cfgs += 1; featcheck_evals += c["featcheck_evaluations"].as_u64().unwrap_or(0);
                if c["featchecks"].as_u64().unwrap_or(0) < 3 { s.rep.machinery_error(format!("{}: the digest program printed {} featcheck lines, at least 3 expected", name, c["featchecks"])); }
            }
            if s.wants_sample() && feats.len() == 2 { s.sample(json!({"configuration": name, "build_s": c["build_s"], "digest_lines": c["n_lines"], "digest_sha": c["sha"]})); }
        }
        s.meta("configurations", json!(cfgs.len()));
        s.meta("built", json!(built));
        s.meta("feature_only_sweeps", json!({"configurations_with_image_pixel_sweep": featcheck_cfgs, "pixel_method_comparisons": featcheck_evals,
            "what": "under image + rgb/rgba the digest program compares every image::Pixel method of vek::Rgb/Rgba<u8|u16|f32> with image::Rgb/Rgba on all pixels of a 7/8/6-value channel alphabet (invert also against full - x with alpha kept, inverted_rgb, involution, after an in-place apply)"}));
        s.meta("distinct_digests_per_base", json!(digests.iter().collect::<Vec<_>>()));
        s.meta("toolchain", v["toolchain"].clone());
        s.meta("harness_az_build", v["harness_az_build"].clone());
        s.meta("az_cast_section_compiled_in", json!(cfg!(feature = "az")));
        s.meta("matrix_wall_s", v["wall_s"].clone());
        s.meta("feature_universe", v["feature_universe"].clone());
    });
}

fn main() {
    let rep = Report::start("C20", "exploration");
    let thorough = rep.thorough();
    rep.section("integer lifts on i8/u8: all operand pairs per lane",
        "for each of the 13 vector types, element type i8 and u8, each of 20 lifted operations (Checked{Add,Sub,Mul,Div,Rem,Neg}, CheckedEuclid x2, Wrapping{Add,Sub,Mul,Neg}, Saturating{Add,Sub,Mul}, Overflowing{Add,Sub,Mul}, Euclid x2), each lane position p and 3 contexts for the other lanes (benign lane-dependent operands; exactly one other lane overflowing / dividing by zero; all other lanes so): every operand pair of the lane alphabet in lane p (all 65 536 pairs when N<=4 or thorough; the boundary alphabet squared for N>=8 in quick, for the all-hazardous context, and for the panicking Euclid forms in hazardous contexts). 4th context (binary operations): every other lane holds equal benign operands (v_j, v_j) and the varied lane runs through the boundary alphabet squared, so that the whole vectors are equal on the diagonal (0/0, MIN/MIN, ...); there the lifted form is also called with the very same object as both operands. Oracle: the scalar num_traits operation per lane; Some(v) iff every lane is Some; flag = OR of lane flags; panic iff some lane's scalar form panics. non-trivial: some lane is None / flagged / panicking / wrapped or saturated",
        true, false, |s| {
            s.require_classes(&LIFT_CLASSES); s.require_classes(&ALL_TYPES); s.require_classes(&INT_OPS); s.require_classes(&["i8", "u8"]); s.require_classes(&EQ_CLASSES);
            for_all_vecs!(V => {
                let full = thorough || <V<i8> as VecN<i8>>::N <= 4;
                int_lifts::<V<i8>, i8>(s, full);
                int_lifts::<V<u8>, u8>(s, full);
            });
            s.meta("alphabets", json!({"full": 256, "boundary_i8": jd(&boundary::<i8>()), "boundary_u8": jd(&boundary::<u8>())}));
            s.meta("contexts", json!(CTX));
        });
    rep.section("integer lifts on wider element types (boundary alphabets)",
        "the same 20 operations, 13 vector types, every lane position and the 3 contexts on i16,u16,i32,u32,i64,u64: the varied lane runs through the square of the type's boundary alphabet (range ends, halves, square roots of MAX, small values: the points where add/sub/mul/div/neg change regime; thorough: plus +-2^k and +-(2^k-1), every k for 16 bit and every 2nd for 32/64 bit). The property text says 'sampled for wider types'; this is a complete enumeration of a stated boundary alphabet, not a random sample. Also the pointer-sized isize / usize on Vec3, Vec8, Rgba, and the 4th context (equal operands in every lane, same object as both operands) as in the 8-bit section. non-trivial as above",
        true, false, |s| {
            s.require_classes(&LIFT_CLASSES); s.require_classes(&ALL_TYPES); s.require_classes(&INT_OPS); s.require_classes(&["i16", "u16", "i32", "u32", "i64", "u64", "isize", "usize"]); s.require_classes(&EQ_CLASSES);
            int_lifts::<Vec3<isize>, isize>(s, thorough); int_lifts::<Vec3<usize>, usize>(s, thorough);
            int_lifts::<Vec8<isize>, isize>(s, thorough); int_lifts::<Vec8<usize>, usize>(s, thorough);
            int_lifts::<Rgba<isize>, isize>(s, thorough); int_lifts::<Rgba<usize>, usize>(s, thorough);
            for_all_vecs!(V => {
                int_lifts::<V<i16>, i16>(s, thorough); int_lifts::<V<u16>, u16>(s, thorough);
                int_lifts::<V<i32>, i32>(s, thorough); int_lifts::<V<u32>, u32>(s, thorough);
                int_lifts::<V<i64>, i64>(s, thorough); int_lifts::<V<u64>, u64>(s, thorough);
            });
            s.meta("alphabet_sizes", json!({"i16": boundary::<i16>().len(), "u16": boundary::<u16>().len(), "i32": boundary::<i32>().len(), "u32": boundary::<u32>().len(), "i64": boundary::<i64>().len(), "u64": boundary::<u64>().len()}));
            s.meta("boundary_i32", jd(&boundary::<i32>()));
            if thorough { s.meta("dense_alphabet_sizes", json!({"i16": dense::<i16>().len(), "u16": dense::<u16>().len(), "i32": dense::<i32>().len(), "u32": dense::<u32>().len(), "i64": dense::<i64>().len(), "u64": dense::<u64>().len()})); }
        });

    rep.section("float lifts: Inv and Euclid",
        "Inv::inv, Euclid::{div_euclid, rem_euclid} on the 13 vector types over f32 and f64: every position runs through the float class alphabet (17 values: +-0, +-min subnormal, min normal, 0.1, +-1, 1+ulp, 1.0005, 3.5, -7.5, +-MAX, +-inf, NaN; squared for the binary forms) with the other positions benign or rotating through the alphabet; result compared bit for bit (NaN = NaN) with the scalar operation; thorough: the 38-value extended class alphabet (adds ULP neighbours of 1, 1.25, +-2.5, 7, -0.3, 1e-3, values scaled by 2^+-40 (f32) / 2^+-400 (f64), MAX/2, pred(MAX), the largest subnormal). Euclid also on equal operands in every position (a, a) for every class a: as two separately built equal vectors and as the very same object on both sides. non-trivial: operands non-zero",
        true, false, |s| {
            s.require_classes(&ALL_TYPES); s.require_classes(&["f32", "f64", "inv: plain", "float div_euclid: plain", "float rem_euclid: plain", "float euclid (equal operands): plain", "float euclid (same object): plain"]);
            let mut t = Tally::new();
            for_all_vecs!(V => { float_lifts::<V<f32>, f32>(s, &mut t); float_lifts::<V<f64>, f64>(s, &mut t); });
            flush(s, &t);
            s.meta("alphabet", jd(&f32::classes()));
        });

    rep.section("Zero / One / is_zero / is_one on vectors and matrices",
        "13 vector types and 6 matrix types (both layouts) over i8,u8,u16,i32,i64,f32,f64: Zero::zero() and set_zero() hold T::zero() everywhere; One::one()/set_one() hold T::one() everywhere on vectors and the identity on matrices; is_zero (each position through the type's class alphabet, others zero / one other non-zero / rotating) holds exactly when every element is_zero by the scalar rule (so -0.0 counts, NaN does not); is_one likewise against one(). Also: two non-zero elements that cancel ((1,-1), (MAX,-MAX), (MIN,MIN), (min subnormal, -min subnormal), (inf,-inf); for unsigned integers pairs whose wrapping sum is 0) at every pair of neighbouring positions: is_zero is false; two elements with (wrapping) product one ((-1,-1), (2,0.5), (MAX,MAX) unsigned) at positions where one() holds one: is_one is false; the inherent constructors zero() / one() / identity() the trait forms delegate to, called directly. non-trivial: all",
        true, false, |s| {
            s.require_classes(&ALL_TYPES);
            s.require_classes(&["row Mat2", "row Mat3", "row Mat4", "col Mat2", "col Mat3", "col Mat4", "i8", "u8", "i32", "f32", "f64", "u16", "i64",
                "is_zero: true", "is_zero: false: varied lane only", "is_zero: false: other lanes only", "is_zero: false: both", "is_one: true", "is_one: false",
                "Zero::zero: value", "Zero::set_zero: value", "One::one: value", "One::set_one: value",
                "is_zero: false: two non-zero elements cancel", "is_one: false: two elements with product one", "inherent constructor: value"]);
            let mut t = Tally::new();
            macro_rules! zi { ($T:ty, $lay:ident $M:ident $N:expr, $name:expr) => {{
                let idn: Vec<$T> = (0..$N * $N).map(|k| if k / $N == k % $N { <$T as One>::one() } else { <$T as Zero>::zero() }).collect();
                inherent_ctor::<$T>(s, &mut t, $name, "zero (inherent)", s.call($name, || json!("zero()"), || flat(&<$lay::$M<$T> as MatIO<$T, $N>>::decode(&$lay::$M::<$T>::zero()))), vec![<$T as Zero>::zero(); $N * $N]);
                inherent_ctor::<$T>(s, &mut t, $name, "identity (inherent)", s.call($name, || json!("identity()"), || flat(&<$lay::$M<$T> as MatIO<$T, $N>>::decode(&$lay::$M::<$T>::identity()))), idn);
            }} }
            macro_rules! zo { ($($T:ty),*) => { $(
                for_all_vecs!(V => {
                    zero_one_vec::<V<$T>, $T>(s, &mut t);
                    let (nm, n) = (<V<$T> as VecN<$T>>::NAME, <V<$T> as VecN<$T>>::N);
                    inherent_ctor::<$T>(s, &mut t, nm, "zero (inherent)", s.call(nm, || json!("zero()"), || V::<$T>::zero().into_elems()), vec![<$T as Zero>::zero(); n]);
                    inherent_ctor::<$T>(s, &mut t, nm, "one (inherent)", s.call(nm, || json!("one()"), || V::<$T>::one().into_elems()), vec![<$T as One>::one(); n]);
                });
                zi!($T, rm Mat2 2, "row Mat2"); zi!($T, cm Mat2 2, "col Mat2"); zi!($T, rm Mat3 3, "row Mat3"); zi!($T, cm Mat3 3, "col Mat3"); zi!($T, rm Mat4 4, "row Mat4"); zi!($T, cm Mat4 4, "col Mat4");
                zero_one_mat::<rm::Mat2<$T>, $T, 2>(s, &mut t, "row Mat2"); zero_one_mat::<cm::Mat2<$T>, $T, 2>(s, &mut t, "col Mat2");
                zero_one_mat::<rm::Mat3<$T>, $T, 3>(s, &mut t, "row Mat3"); zero_one_mat::<cm::Mat3<$T>, $T, 3>(s, &mut t, "col Mat3");
                zero_one_mat::<rm::Mat4<$T>, $T, 4>(s, &mut t, "row Mat4"); zero_one_mat::<cm::Mat4<$T>, $T, 4>(s, &mut t, "col Mat4");
            )* } }
            zo!(i8, u8, i32, f32, f64);
            zo!(u16, i64);
            flush(s, &t);
            s.meta("alphabet_sizes", json!({"i8": i8::alpha().len(), "u8": u8::alpha().len(), "i32": <i32 as Prim>::alpha().len(), "f32": <f32 as Prim>::alpha().len(), "f64": <f64 as Prim>::alpha().len()}));
        });
    rep.section("element casts as_ / numcast on vectors, matrices, shapes",
        "as_ and numcast on 13 vector types and 6 matrix types (both layouts), as_ on Rect, Rect3, Aabr, Aabb, LineSegment2, LineSegment3, for 8 core source->target pairs (f32->i8, f64->u32, i32->u8, i8->u32, u64->f32, f64->f32, i64->i32, u8->f64); 18 further pairs on Vec4, Vec8, Rgba, row/col Mat3. Each element position runs through the source type's class alphabet (every primitive range boundary +-1, negative-to-unsigned, NaN, +-inf, subnormals, fractional values) in 3 contexts (others benign; one other element unconvertible; others rotating through the alphabet). Oracle per element: the `as` operator for as_, NumCast::from for numcast; numcast is None iff some element is None. non-trivial: element non-zero or unconvertible",
        true, false, |s| {
            s.require_classes(&ALL_TYPES);
            s.require_classes(&["row Mat2", "row Mat3", "row Mat4", "col Mat2", "col Mat3", "col Mat4", "Rect", "Rect3", "Aabr", "Aabb", "LineSegment2", "LineSegment3",
                "as_: plain", "as_: source not representable in the target (saturates / wraps / NaN->0)", "numcast: plain", "numcast: None: varied lane only", "numcast: None: other lanes only", "numcast: None: both",
                "Rect mixed position/extent types"]);
            let mut t = Tally::new();
            CAST_ALPHABET.store(0, std::sync::atomic::Ordering::SeqCst);
            cast_core!(s, &mut t, f32 => i8); cast_core!(s, &mut t, f64 => u32); cast_core!(s, &mut t, i32 => u8); cast_core!(s, &mut t, i8 => u32);
            cast_core!(s, &mut t, u64 => f32); cast_core!(s, &mut t, f64 => f32); cast_core!(s, &mut t, i64 => i32); cast_core!(s, &mut t, u8 => f64);
            cast_ext!(s, &mut t, f32 => u8); cast_ext!(s, &mut t, f32 => i32); cast_ext!(s, &mut t, f32 => u64); cast_ext!(s, &mut t, f32 => f64);
            cast_ext!(s, &mut t, f64 => i16); cast_ext!(s, &mut t, f64 => i64); cast_ext!(s, &mut t, i32 => i8); cast_ext!(s, &mut t, i32 => u32);
            cast_ext!(s, &mut t, i32 => f32); cast_ext!(s, &mut t, i32 => i64); cast_ext!(s, &mut t, u64 => i32); cast_ext!(s, &mut t, u64 => u8);
            cast_ext!(s, &mut t, i8 => u8); cast_ext!(s, &mut t, i8 => f32); cast_ext!(s, &mut t, u8 => i8); cast_ext!(s, &mut t, i64 => f64);
            cast_ext!(s, &mut t, i16 => u16); cast_ext!(s, &mut t, u16 => i16);
            rect_mixed(s, &mut t);
            flush(s, &t);
            s.meta("alphabet_sizes", json!({"f32": <f32 as Prim>::alpha().len(), "f64": <f64 as Prim>::alpha().len(), "i8": i8::alpha().len(), "u8": u8::alpha().len(), "i16": i16::alpha().len(), "u16": u16::alpha().len(),
                "i32": <i32 as Prim>::alpha().len(), "i64": <i64 as Prim>::alpha().len(), "u64": <u64 as Prim>::alpha().len()}));
            s.meta("alphabet_i32", jd(&<i32 as Prim>::alpha()));
        });

    rep.section("element casts: exhaustive / swept source values per position",
        "as_ and numcast (as_ only on shapes) on Vec3, Vec8, Rgba, row Mat2, col Mat3, Aabb, Rect3, LineSegment2 for 31 source->target pairs, each element position running through the sweep alphabet of the source type: every value of i8/u8; a +-1 comb of step 251 (quick) or every value (thorough) of i16/u16; the class alphabet plus +-2^k+-1 for every k (thorough: also 1.5*2^k, 2^k/3, 0.75*2^k) of the 32/64-bit and pointer-sized integers; for f32/f64 the class alphabet plus every pattern of the 16 high bits (every 16th in quick) with the low bits all zero / all one (thorough: and half). 3 contexts as in the class-alphabet section. Also as_ from bool, from char and towards char (the remaining AsPrimitive sources) on the 13 vector types, row Mat3, col Mat4 and Aabr. Oracle per element: the `as` operator / NumCast::from. non-trivial: element non-zero or unconvertible",
        true, false, |s| {
            s.require_classes(&ALL_TYPES);
            s.require_classes(&["row Mat2", "col Mat3", "Aabb", "Rect3", "LineSegment2", "as_: plain", "numcast: plain", "numcast: None: varied lane only", "numcast: None: other lanes only", "numcast: None: both",
                "as_ bool/char: plain", "bool->u8", "bool->i64", "u8->char", "char->u32", "char->u8"]);
            let mut t = Tally::new();
            CAST_ALPHABET.store(if s.thorough() { 2 } else { 1 }, std::sync::atomic::Ordering::SeqCst);
            cast_sw!(s, &mut t, i8 => u8); cast_sw!(s, &mut t, i8 => i16); cast_sw!(s, &mut t, i8 => f32); cast_sw!(s, &mut t, u8 => i8); cast_sw!(s, &mut t, u8 => u16); cast_sw!(s, &mut t, u8 => f64);
            cast_sw!(s, &mut t, i16 => i8); cast_sw!(s, &mut t, i16 => u8); cast_sw!(s, &mut t, i16 => u16); cast_sw!(s, &mut t, i16 => f32); cast_sw!(s, &mut t, u16 => i16); cast_sw!(s, &mut t, u16 => u8);
            cast_sw!(s, &mut t, i32 => i16); cast_sw!(s, &mut t, i32 => f32); cast_sw!(s, &mut t, u32 => i32); cast_sw!(s, &mut t, i64 => i32); cast_sw!(s, &mut t, i64 => f64); cast_sw!(s, &mut t, u64 => f32); cast_sw!(s, &mut t, u64 => i64);
            cast_sw!(s, &mut t, isize => i32); cast_sw!(s, &mut t, usize => u8); cast_sw!(s, &mut t, f64 => usize);
            cast_sw!(s, &mut t, f32 => i8); cast_sw!(s, &mut t, f32 => u8); cast_sw!(s, &mut t, f32 => i16); cast_sw!(s, &mut t, f32 => u32); cast_sw!(s, &mut t, f32 => i64); cast_sw!(s, &mut t, f32 => f64);
            cast_sw!(s, &mut t, f64 => f32); cast_sw!(s, &mut t, f64 => i32); cast_sw!(s, &mut t, f64 => u64);
            CAST_ALPHABET.store(0, std::sync::atomic::Ordering::SeqCst);
            as_misc!(s, &mut t, bool => u8, vec![false, true], |j: usize| j % 2 == 1);
            as_misc!(s, &mut t, bool => i64, vec![false, true], |j: usize| j % 3 == 1);
            as_misc!(s, &mut t, u8 => char, (0..=255u8).collect(), |j: usize| (j % 50 + 65) as u8);
            as_misc!(s, &mut t, char => u32, vec!['\0', 'a', '\u{7f}', '\u{80}', '\u{ff}', '\u{100}', '\u{d7ff}', '\u{e000}', '\u{ffff}', '\u{10000}', '\u{10ffff}'], |j: usize| (b'A' + (j % 50) as u8) as char);
            as_misc!(s, &mut t, char => u8, vec!['\0', 'a', '\u{7f}', '\u{80}', '\u{ff}', '\u{100}', '\u{d7ff}', '\u{e000}', '\u{ffff}', '\u{10000}', '\u{10ffff}'], |j: usize| (b'A' + (j % 50) as u8) as char);
            flush(s, &t);
            s.meta("sweep_alphabet_sizes", json!({"i8": i8::sweep(s.thorough()).len(), "i16": i16::sweep(s.thorough()).len(), "u16": u16::sweep(s.thorough()).len(), "i32": <i32 as Prim>::sweep(s.thorough()).len(),
                "i64": <i64 as Prim>::sweep(s.thorough()).len(), "u64": <u64 as Prim>::sweep(s.thorough()).len(), "f32": <f32 as Prim>::sweep(s.thorough()).len(), "f64": <f64 as Prim>::sweep(s.thorough()).len()}));
        });
    rep.section("closure conversions map / map2 / apply / apply2 on matrices and map on shapes keep element positions",
        "the closure-driven element conversions that sit next to as_ / numcast: Mat{2,3,4}::map, map2 (both layouts), the in-place twins apply, apply2 (run twice in sequence, so the second call starts from a non-trivial prior state), Rect::map, Rect3::map (separate closures for position and extent elements), Aabr::map, Aabb::map, on pairwise distinct opaque symbols with injective, non-commutative closures: element (i,j) / named field of the result must be the closure's image of the element(s) at the same place. The impls have no bound on T beyond Copy, so they cannot inspect elements; recorded as bounded because a closure with side effects could observe the call order, which the property leaves open. non-trivial: all",
        true, false, |s| {
            s.require_classes(&["row Mat2", "row Mat3", "row Mat4", "col Mat2", "col Mat3", "col Mat4", "Rect", "Rect3", "Aabr", "Aabb", "map", "map2", "apply", "apply2"]);
            let mut t = Tally::new();
            macro_rules! mm { ($N:expr, $lay:ident $M:ident, $name:expr) => {{
                let a = symmat::<$N>();
                let mut b = [[0u32; $N]; $N]; for i in 0..$N { for j in 0..$N { b[i][j] = 300 + (7 * i + 3 * j) as u32; } }
                let el = |f: &dyn Fn(usize, usize) -> u32| { let mut o = [[0u32; $N]; $N]; for i in 0..$N { for j in 0..$N { o[i][j] = f(i, j); } } o };
                let els = |f: &dyn Fn(usize, usize) -> u16| { let mut o = [[Sym(0); $N]; $N]; for i in 0..$N { for j in 0..$N { o[i][j] = Sym(f(i, j)); } } o };
                let mk = || <$lay::$M<Sym> as MatIO<Sym, $N>>::build(&a);
                let mkb = || <$lay::$M<u32> as MatIO<u32, $N>>::build(&b);
                expect_eq(s, &mut t, &format!("{}::map", $name), $name, s.call($name, || json!("map"), || <$lay::$M<u32> as MatIO<u32, $N>>::decode(&mk().map(|x: Sym| x.0 as u32 * 3 + 1))), el(&|i, j| a[i][j].0 as u32 * 3 + 1));
                expect_eq(s, &mut t, &format!("{}::map2", $name), "map2", s.call($name, || json!("map2"), || <$lay::$M<u32> as MatIO<u32, $N>>::decode(&mk().map2(mkb(), |x: Sym, y: u32| x.0 as u32 * 1000 + y))), el(&|i, j| a[i][j].0 as u32 * 1000 + b[i][j]));
                expect_eq(s, &mut t, &format!("{}::apply", $name), "apply", s.call($name, || json!("apply; apply"), || { let mut m = mk(); m.apply(|x| Sym(x.0 + 1000)); m.apply(|x| Sym(x.0 * 2 + 1)); m.decode() }), els(&|i, j| (a[i][j].0 + 1000) * 2 + 1));
                expect_eq(s, &mut t, &format!("{}::apply2", $name), "apply2", s.call($name, || json!("apply; apply2; apply2"), || { let mut m = mk(); m.apply(|x| Sym(x.0 + 5)); m.apply2(mkb(), |x, y: u32| Sym(x.0 * 3 + y as u16)); m.apply2(mk(), |x, y: Sym| Sym(x.0 * 2 + y.0)); m.decode() }),
                    els(&|i, j| ((a[i][j].0 + 5) * 3 + b[i][j] as u16) * 2 + a[i][j].0));
                *t.entry("map".into()).or_insert(0) += 1;
            }} }
            mm!(2, rm Mat2, "row Mat2"); mm!(2, cm Mat2, "col Mat2"); mm!(3, rm Mat3, "row Mat3"); mm!(3, cm Mat3, "col Mat3"); mm!(4, rm Mat4, "row Mat4"); mm!(4, cm Mat4, "col Mat4");
            let y = |k: u16| Sym(100 + k);
            let pf = |p: Sym| p.0 as u32 + 1000;
            let ef = |e: Sym| -(e.0 as i64) - 2000;
            expect_eq(s, &mut t, "Rect::map", "Rect", s.call("Rect::map", || json!(null), || { let r = Rect { x: y(0), y: y(1), w: y(2), h: y(3) }.map(pf, ef); (r.x, r.y, r.w, r.h) }), (1100u32, 1101u32, -2102i64, -2103i64));
            expect_eq(s, &mut t, "Rect3::map", "Rect3", s.call("Rect3::map", || json!(null), || { let r = Rect3 { x: y(0), y: y(1), z: y(2), w: y(3), h: y(4), d: y(5) }.map(pf, ef); (r.x, r.y, r.z, r.w, r.h, r.d) }), (1100u32, 1101u32, 1102u32, -2103i64, -2104i64, -2105i64));
            expect_eq(s, &mut t, "Aabr::map", "Aabr", s.call("Aabr::map", || json!(null), || { let r = Aabr { min: Vec2 { x: y(0), y: y(1) }, max: Vec2 { x: y(2), y: y(3) } }.map(pf); [r.min.x, r.min.y, r.max.x, r.max.y] }), [1100u32, 1101, 1102, 1103]);
            expect_eq(s, &mut t, "Aabb::map", "Aabb", s.call("Aabb::map", || json!(null), || { let r = Aabb { min: Vec3 { x: y(0), y: y(1), z: y(2) }, max: Vec3 { x: y(3), y: y(4), z: y(5) } }.map(pf); [r.min.x, r.min.y, r.min.z, r.max.x, r.max.y, r.max.z] }), [1100u32, 1101, 1102, 1103, 1104, 1105]);
            flush(s, &t);
        });
    rep.section("approx lifts: abs_diff_eq / relative_eq / ulps_eq on vectors, matrices, quaternions",
        "AbsDiffEq, RelativeEq, UlpsEq on 13 vector types, 6 matrix types (both layouts) and Quaternion over f32 and f64: each element position runs through all 17^2 pairs of the float class alphabet, for epsilon in {default, 0, 1e-3} x {abs; relative with max_relative default and 0.25; ulps with max_ulps default and 0} (thorough: + max_relative 0, max_ulps 2^22, doubled epsilon), in 3 contexts (other positions equal; one other position unequal (1 vs 2); others rotating through the pair alphabet). Oracle: conjunction of the scalar approx predicate over corresponding elements; the default epsilon / max_relative / max_ulps equal the element type's. Added: (a) thorough squares the 38-value extended class alphabet (ULP neighbours of 1, values scaled by 2^+-40 / 2^+-400, MAX/2, pred(MAX), largest subnormal) instead of the 17 classes; (b) 'near' runs: each position through a targeted list of pairs k ULPs apart (k = 1,2,4,5,6,16 at nine magnitudes), pairs straddling max_relative 0.25 / 1e-3 and epsilon 1e-3 at scales 1, 2^+-40 (f32) / 2^+-400 (f64), sign-crossing and non-finite pairs, both orders, under all predicates above plus extreme tolerances (epsilon inf / NaN / -1 / MAX / min subnormal; max_relative 1, 2, 0.5, 1e-3, inf, NaN, -1; max_ulps 1, 4, 5, 16, u32::MAX); (c) with every eq form the negated form abs_diff_ne / relative_ne / ulps_ne is called on the same operands and must be its negation; (d) AbsDiffEq (the one approx trait integers implement) on i8, u8, i32 vectors / matrices / quaternions over the square of {MIN, MIN+1, MIN/2, -8, -1, 0, 1, 7, 8, MAX/2, MAX/2+8, MAX-1, MAX} with epsilon 0, 7, MAX (signed: and -1), where the scalar form may panic on overflow (then the lifted form must panic too); (e) in the near runs and the integer runs a 4th context in which every other position holds a different UNEQUAL pair on which the scalar predicate still holds (largest deviations first: exactly epsilon apart, exactly max_ulps apart, ...), so that every position deviates and the whole verdict is still that of the varied position: separates the per-element conjunction from a norm / sum of differences; (f) 'self' runs: the very same object on both sides (x.abs_diff_eq(&x, ..)), each position through the class alphabet and the first components of the near pairs, under all predicates and extreme tolerances: per element the scalar predicate of (a, a), which fails for NaN, for infinities under abs_diff_eq and under negative / NaN epsilon. non-trivial: the varied pair is not bit-identical",
        true, false, |s| {
            s.require_classes(&ALL_TYPES);
            s.require_classes(&["row Mat2", "row Mat3", "row Mat4", "col Mat2", "col Mat3", "col Mat4", "Quaternion", "f32", "f64", "defaults"]);
            for p in ["abs_diff_eq", "relative_eq", "ulps_eq", "near abs_diff_eq", "near relative_eq", "near ulps_eq", "int abs_diff_eq"] { for o in ["true", "false: varied lane only", "false: other lanes only", "false: both"] { s.require_classes(&[&format!("{}: {}", p, o)]); } }
            s.require_classes(&["i8", "u8", "i32", "int abs_diff_eq: panic: varied lane only"]);
            for p in ["self abs_diff_eq", "self relative_eq", "self ulps_eq"] { for o in ["true", "false: varied lane only", "false: other lanes only", "false: both"] { s.require_classes(&[&format!("{}: {}", p, o)]); } }
            for p in ["near abs_diff_eq", "near relative_eq", "near ulps_eq", "int abs_diff_eq"] { s.require_classes(&[&format!("{}: holds although every position deviates", p)]); }
            s.require_classes(&["int self abs_diff_eq: true", "int self abs_diff_eq: false: both"]);
            let mut t = Tally::new();
            let th = s.thorough();
            macro_rules! ap { ($($T:ty),*) => { $(
                for_all_vecs!(V => { approx_lift::<V<$T>, $T>(s, &mut t, <V<$T> as VecN<$T>>::NAME, <V<$T> as VecN<$T>>::N, th, &|e| <V<$T> as VecN<$T>>::from_elems(e.to_vec())); });
                approx_lift::<rm::Mat2<$T>, $T>(s, &mut t, "row Mat2", 4, th, &|e| r2(&unflat::<$T, 2>(e))); approx_lift::<cm::Mat2<$T>, $T>(s, &mut t, "col Mat2", 4, th, &|e| c2(&unflat::<$T, 2>(e)));
                approx_lift::<rm::Mat3<$T>, $T>(s, &mut t, "row Mat3", 9, th, &|e| r3(&unflat::<$T, 3>(e))); approx_lift::<cm::Mat3<$T>, $T>(s, &mut t, "col Mat3", 9, th, &|e| c3(&unflat::<$T, 3>(e)));
                approx_lift::<rm::Mat4<$T>, $T>(s, &mut t, "row Mat4", 16, th, &|e| r4(&unflat::<$T, 4>(e))); approx_lift::<cm::Mat4<$T>, $T>(s, &mut t, "col Mat4", 16, th, &|e| c4(&unflat::<$T, 4>(e)));
                approx_lift::<Quaternion<$T>, $T>(s, &mut t, "Quaternion", 4, th, &|e| Quaternion { x: e[0], y: e[1], z: e[2], w: e[3] });
            )* } }
            ap!(f32, f64);
            macro_rules! api { ($($T:ty),*) => { $(
                for_all_vecs!(V => { approx_int::<V<$T>, $T>(s, &mut t, <V<$T> as VecN<$T>>::NAME, <V<$T> as VecN<$T>>::N, &|e| <V<$T> as VecN<$T>>::from_elems(e.to_vec())); });
                approx_int::<rm::Mat2<$T>, $T>(s, &mut t, "row Mat2", 4, &|e| r2(&unflat::<$T, 2>(e))); approx_int::<cm::Mat2<$T>, $T>(s, &mut t, "col Mat2", 4, &|e| c2(&unflat::<$T, 2>(e)));
                approx_int::<rm::Mat3<$T>, $T>(s, &mut t, "row Mat3", 9, &|e| r3(&unflat::<$T, 3>(e))); approx_int::<cm::Mat3<$T>, $T>(s, &mut t, "col Mat3", 9, &|e| c3(&unflat::<$T, 3>(e)));
                approx_int::<rm::Mat4<$T>, $T>(s, &mut t, "row Mat4", 16, &|e| r4(&unflat::<$T, 4>(e))); approx_int::<cm::Mat4<$T>, $T>(s, &mut t, "col Mat4", 16, &|e| c4(&unflat::<$T, 4>(e)));
                approx_int::<Quaternion<$T>, $T>(s, &mut t, "Quaternion", 4, &|e| Quaternion { x: e[0], y: e[1], z: e[2], w: e[3] });
            )* } }
            api!(i8, u8, i32);
            flush(s, &t);
            s.meta("near_pairs", json!(f64::near_pairs().len()));
            s.meta("thorough_class_alphabet", jd(&f64::classes_ext()));
            s.meta("float_class_alphabet", jd(&f64::classes()));
            s.meta("pairs_per_position", json!(f64::classes().len() * f64::classes().len()));
        });

    rep.section("approx lifts on an opaque probe element: element pairing, tolerance arguments, defaults",
        "AbsDiffEq / RelativeEq / UlpsEq (and the ne forms) of the 13 vector types, 6 matrix types and Quaternion over a probe element type defined in the check: its scalar predicates hold exactly when called on (element k of self, element k of other) in this order AND with exactly the tolerances handed to the lifted form (epsilon 0.3, max_relative 0.7, max_ulps 11); `==` on probes is always true; its three defaults are pairwise different (0.125, 0.5, 7; for f32/f64 default_epsilon and default_max_relative are the same number). Cases: all pairs hold; each single left / right element failing; right operand rotated by one position; operands exchanged; x 10 tolerance settings (the accepted ones, exchanged epsilon/max_relative, the defaults instead of the passed values). The lifts are generic over the element type, so they can reach an element only through these predicates and `==`. non-trivial: all",
        true, false, |s| {
            s.require_classes(&ALL_TYPES);
            s.require_classes(&["row Mat2", "row Mat3", "row Mat4", "col Mat2", "col Mat3", "col Mat4", "Quaternion", "probe: defaults", "probe: holds", "probe: false: an element pair fails", "probe: false: tolerances are not the ones the element accepts"]);
            let mut t = Tally::new();
            for_all_vecs!(V => { probe_lift::<V<Probe>>(s, &mut t, <V<Probe> as VecN<Probe>>::NAME, <V<Probe> as VecN<Probe>>::N, &|e| <V<Probe> as VecN<Probe>>::from_elems(e.to_vec())); });
            probe_lift::<rm::Mat2<Probe>>(s, &mut t, "row Mat2", 4, &|e| r2(&unflat::<Probe, 2>(e))); probe_lift::<cm::Mat2<Probe>>(s, &mut t, "col Mat2", 4, &|e| c2(&unflat::<Probe, 2>(e)));
            probe_lift::<rm::Mat3<Probe>>(s, &mut t, "row Mat3", 9, &|e| r3(&unflat::<Probe, 3>(e))); probe_lift::<cm::Mat3<Probe>>(s, &mut t, "col Mat3", 9, &|e| c3(&unflat::<Probe, 3>(e)));
            probe_lift::<rm::Mat4<Probe>>(s, &mut t, "row Mat4", 16, &|e| r4(&unflat::<Probe, 4>(e))); probe_lift::<cm::Mat4<Probe>>(s, &mut t, "col Mat4", 16, &|e| c4(&unflat::<Probe, 4>(e)));
            probe_lift::<Quaternion<Probe>>(s, &mut t, "Quaternion", 4, &|e| Quaternion { x: e[0], y: e[1], z: e[2], w: e[3] });
            flush(s, &t);
        });
    rep.section("wrapping lifts on Wrapping<i8> / Wrapping<u8> elements",
        "Wrapping{Add,Sub,Mul,Neg} on Vec3, Vec8, Rgba over std::num::Wrapping<i8> and Wrapping<u8> (the element types besides the primitive integers for which num_traits implements a lifted operation): each position through (every 8-bit value x the boundary alphabet) in both orders, other positions lane-dependent or rotating; oracle: the scalar operation on the Wrapping element. non-trivial: all",
        true, false, |s| {
            s.require_classes(&["Vec3", "Vec8", "Rgba", "Wrapping<i8>", "Wrapping<u8>", "wrapping_add: plain", "wrapping_sub: plain", "wrapping_mul: plain", "wrapping_neg: plain"]);
            let mut t = Tally::new();
            let (ai, bi): (Vec<Wrapping<i8>>, Vec<Wrapping<i8>>) = (all_values::<i8>().into_iter().map(Wrapping).collect(), boundary::<i8>().into_iter().map(Wrapping).collect());
            let (au, bu): (Vec<Wrapping<u8>>, Vec<Wrapping<u8>>) = (all_values::<u8>().into_iter().map(Wrapping).collect(), boundary::<u8>().into_iter().map(Wrapping).collect());
            wrapping_elems::<Vec3<Wrapping<i8>>, _>(s, &mut t, "Wrapping<i8>", &ai, &bi); wrapping_elems::<Vec8<Wrapping<i8>>, _>(s, &mut t, "Wrapping<i8>", &ai, &bi); wrapping_elems::<Rgba<Wrapping<i8>>, _>(s, &mut t, "Wrapping<i8>", &ai, &bi);
            wrapping_elems::<Vec3<Wrapping<u8>>, _>(s, &mut t, "Wrapping<u8>", &au, &bu); wrapping_elems::<Vec8<Wrapping<u8>>, _>(s, &mut t, "Wrapping<u8>", &au, &bu); wrapping_elems::<Rgba<Wrapping<u8>>, _>(s, &mut t, "Wrapping<u8>", &au, &bu);
            flush(s, &t);
        });

    rep.section("mint conversions keep element positions (opaque symbols)",
        "every mint impl of vek (Vec2<->Vector2/Point2, Vec3<->Vector3/Point3, Vec4<->Vector4; row- and column-major Mat2/3/4 <-> RowMatrixN and ColumnMatrixN; Quaternion<->mint::Quaternion), both directions, run once on pairwise distinct opaque symbols: logical element (i,j) / named field must arrive at the same logical place (mint row matrices: m.<row>.<col>; column matrices: m.<col>.<row>; quaternion s=w, v=(x,y,z)). The impls are `impl<T>` without any bound on T, so they cannot inspect elements: one run on distinct symbols decides the routing for all inputs. non-trivial: all",
        true, true, |s| {
            s.require_classes(&["vek vector -> mint", "mint -> vek vector", "row Mat2", "row Mat3", "row Mat4", "col Mat2", "col Mat3", "col Mat4", "Quaternion"]);
            let mut t = Tally::new();
            mint_vec!(s, &mut t, Vec2, Vector2, [x y]); mint_vec!(s, &mut t, Vec2, Point2, [x y]);
            mint_vec!(s, &mut t, Vec3, Vector3, [x y z]); mint_vec!(s, &mut t, Vec3, Point3, [x y z]);
            mint_vec!(s, &mut t, Vec4, Vector4, [x y z w]);
            mint_mat!(s, &mut t, 2, rm Mat2, RowMatrix2 ColumnMatrix2, mrow2 mcol2 drow2 dcol2); mint_mat!(s, &mut t, 2, cm Mat2, RowMatrix2 ColumnMatrix2, mrow2 mcol2 drow2 dcol2);
            mint_mat!(s, &mut t, 3, rm Mat3, RowMatrix3 ColumnMatrix3, mrow3 mcol3 drow3 dcol3); mint_mat!(s, &mut t, 3, cm Mat3, RowMatrix3 ColumnMatrix3, mrow3 mcol3 drow3 dcol3);
            mint_mat!(s, &mut t, 4, rm Mat4, RowMatrix4 ColumnMatrix4, mrow4 mcol4 drow4 dcol4); mint_mat!(s, &mut t, 4, cm Mat4, RowMatrix4 ColumnMatrix4, mrow4 mcol4 drow4 dcol4);
            let (x, y, z, w) = (Sym(100), Sym(101), Sym(102), Sym(103));
            expect_eq(s, &mut t, "Quaternion -> mint::Quaternion", "Quaternion", s.call("Quaternion -> mint", || json!(null), || { let m: mint::Quaternion<Sym> = Quaternion { x, y, z, w }.into(); [m.v.x, m.v.y, m.v.z, m.s] }), [x, y, z, w]);
            expect_eq(s, &mut t, "mint::Quaternion -> Quaternion", "Quaternion", s.call("mint -> Quaternion", || json!(null), || { let q = Quaternion::<Sym>::from(mint::Quaternion { s: w, v: mint::Vector3 { x, y, z } }); [q.x, q.y, q.z, q.w] }), [x, y, z, w]);
            flush(s, &t);
            s.sample(json!({"matrix": "col Mat3 of symbols a[i][j] = s(100+10i+j)", "into": "mint::RowMatrix3", "must hold": "m.y.z == s112 (row 1, column 2)"}));
        });

    rep.section("bytemuck: Zeroable::zeroed and Pod casts keep declaration order",
        "13 vector types, 6 matrix types, Quaternion over u8, u32, f64: zeroed() holds the all-zero bit pattern in every element; size_of = N*size_of(T) (no padding); cast_slice of two values to elements, cast_slice of elements back to values and bytes_of give the elements in declaration order (vectors: field order; row-major matrices: rows then columns; column-major: columns then rows; quaternion x,y,z,w) on pairwise distinct labels. A byte reinterpretation does not depend on the values, but the claim is recorded as bounded. non-trivial: all",
        true, false, |s| {
            s.require_classes(&ALL_TYPES);
            s.require_classes(&["row Mat2", "row Mat3", "row Mat4", "col Mat2", "col Mat3", "col Mat4", "Quaternion", "u8", "u32", "f64",
                "Zeroable::zeroed", "size_of", "Pod cast_slice to elements", "Pod cast_slice from elements", "Pod bytes_of"]);
            let mut t = Tally::new();
            macro_rules! pod { ($($T:ty),*) => { $(
                for_all_vecs!(V => { pod_vec::<V<$T>, $T>(s, &mut t); });
                pod_mat::<rm::Mat2<$T>, $T, 2>(s, &mut t, "row Mat2", false); pod_mat::<cm::Mat2<$T>, $T, 2>(s, &mut t, "col Mat2", true);
                pod_mat::<rm::Mat3<$T>, $T, 3>(s, &mut t, "row Mat3", false); pod_mat::<cm::Mat3<$T>, $T, 3>(s, &mut t, "col Mat3", true);
                pod_mat::<rm::Mat4<$T>, $T, 4>(s, &mut t, "row Mat4", false); pod_mat::<cm::Mat4<$T>, $T, 4>(s, &mut t, "col Mat4", true);
                pod_check::<Quaternion<$T>, $T>(s, &mut t, "Quaternion", 4, &|e| Quaternion { x: e[0], y: e[1], z: e[2], w: e[3] }, &|q| vec![q.x, q.y, q.z, q.w], &|k| k);
            )* } }
            pod!(u8, u32, f64);
            flush(s, &t);
            s.sample(json!({"value": "col Mat2<u32> with a[i][j] = label(2i+j) = [[1,2],[3,4]]", "cast_slice::<_, u32> must give": [1, 3, 2, 4]}));
        });
    #[cfg(feature = "az")]
    rep.section("az casts on vectors (az / checked_as / saturating_as / wrapping_as / overflowing_as / unwrapped_as)",
        "the six az-style casts on the 13 vector types for 4 core pairs (i16->i8, i8->u8, f32->u8; u16->f32 with the three casts az defines towards floats: az, checked_as, unwrapped_as) and 7 further pairs on Vec4, Vec8, Rgba (i16->u8, u8->i8, f32->i8, f64->u16, i64->u32, f64->i16; i32->f64 with three casts): each element position through the source class alphabet (thorough: the sweep alphabet: every 8-bit value, a +-1 comb of the 16-bit values, +-2^k+-1 for every k, the float high-16-bit pattern comb) in 3 contexts (others benign; one other element failing; others rotating). Oracle per element: the az free function on the scalar (az::cast, checked_cast, saturating_cast, wrapping_cast, overflowing_cast, unwrapped_cast, compiled with debug assertions like vek); None iff some element is None; flag = OR of element flags; panic iff the scalar cast panics on some element. Each cast both through the inherent method and through the az trait form it delegates to (az::Cast::cast etc. on the vector types). non-trivial: element non-zero or failing",
        true, false, |s| {
            s.require_classes(&ALL_TYPES);
            s.require_classes(&["az: plain", "az: panic: varied lane only", "az: panic: other lanes only", "az: panic: both",
                "checked_as: plain", "checked_as: None: varied lane only", "checked_as: None: other lanes only", "checked_as: None: both",
                "saturating_as: plain", "wrapping_as: plain", "wrapping_as: panic: varied lane only", "wrapping_as: panic: other lanes only",
                "overflowing_as: plain", "overflowing_as: flag: varied lane only", "overflowing_as: flag: other lanes only", "overflowing_as: flag: both",
                "unwrapped_as: plain", "unwrapped_as: panic: varied lane only", "unwrapped_as: panic: other lanes only", "unwrapped_as: panic: both",
                "Cast::cast: plain", "CheckedCast::checked_cast: None: both", "UnwrappedCast::unwrapped_cast: panic: both", "SaturatingCast::saturating_cast: plain", "WrappingCast::wrapping_cast: plain", "OverflowingCast::overflowing_cast: flag: both"]);
            let mut t = Tally::new();
            az_vecs!(s, &mut t, i16 => i8; Vec2, Vec3, Vec4, Vec8, Vec16, Vec32, Vec64, Extent2, Extent3, Rgb, Rgba, Uv, Uvw);
            az_vecs!(s, &mut t, i8 => u8; Vec2, Vec3, Vec4, Vec8, Vec16, Vec32, Vec64, Extent2, Extent3, Rgb, Rgba, Uv, Uvw);
            az_vecs!(s, &mut t, f32 => u8; Vec2, Vec3, Vec4, Vec8, Vec16, Vec32, Vec64, Extent2, Extent3, Rgb, Rgba, Uv, Uvw);
            az_vecs3!(s, &mut t, u16 => f32; Vec2, Vec3, Vec4, Vec8, Vec16, Vec32, Vec64, Extent2, Extent3, Rgb, Rgba, Uv, Uvw);
            az_vecs!(s, &mut t, i16 => u8; Vec4, Vec8, Rgba); az_vecs!(s, &mut t, u8 => i8; Vec4, Vec8, Rgba); az_vecs!(s, &mut t, f32 => i8; Vec4, Vec8, Rgba);
            az_vecs!(s, &mut t, f64 => u16; Vec4, Vec8, Rgba); az_vecs!(s, &mut t, i64 => u32; Vec4, Vec8, Rgba); az_vecs3!(s, &mut t, i32 => f64; Vec4, Vec8, Rgba); az_vecs!(s, &mut t, f64 => i16; Vec4, Vec8, Rgba);
            flush(s, &t);
        });
    rep.extra("az_section_compiled", json!(cfg!(feature = "az")));
    feature_matrix(&rep);
    std::process::exit(rep.finish());
}
