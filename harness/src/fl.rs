//! Float tier helpers: exact conversion of floats to rationals and forward-error-bound comparison.
use crate::q::Q;

pub const K: f64 = 256.0;
/// |got - want| <= K * eps * scale   (scale = largest intermediate magnitude seen by the oracle, >= 1e-300)
pub fn close64(got: f64, want: f64, scale: f64) -> bool {
    if got.is_nan() || want.is_nan() { return false; }
    (got - want).abs() <= K * f64::EPSILON * scale.abs().max(f64::MIN_POSITIVE)
}
pub fn close32(got: f32, want: f64, scale: f64) -> bool {
    if got.is_nan() || want.is_nan() { return false; }
    ((got as f64) - want).abs() <= K * (f32::EPSILON as f64) * scale.abs().max(f32::MIN_POSITIVE as f64)
}
pub fn qf(v: f64) -> Q { Q::from_f64(v).expect("float not representable as rational") }
