//! `Fr`: formal fractions over i128 that never form a quotient (so rational functions can be
//! evaluated where their denominator vanishes) and `Deg`: tropical degree bounds.
//! Both refuse every comparison and every non-ring operation (Unmodelled panic): running vek code
//! on them *checks* that the code path is branch-free ring arithmetic.

use crate::q::{unmodelled};
use num_traits::{Num, NumCast, One, ToPrimitive, Zero};
use std::cmp::Ordering;
use std::ops::*;

fn gcd(mut a: i128, mut b: i128) -> i128 {
    a = a.abs(); b = b.abs();
    while b != 0 { let t = a % b; a = b; b = t; }
    a
}
#[inline]
fn ck(x: Option<i128>) -> i128 { match x { Some(v) => v, None => unmodelled("Fr overflow") } }

#[derive(Clone, Copy, Debug)]
pub struct Fr { pub n: i128, pub d: i128 }

impl Fr {
    pub fn int(n: i128) -> Fr { Fr { n, d: 1 } }
    fn mk(n: i128, d: i128) -> Fr {
        // cancel a common integer factor only (keeps 0/0 as 0/0: no quotient is ever formed)
        let g = gcd(n, d);
        if g > 1 { Fr { n: n / g, d: d / g } } else { Fr { n, d } }
    }
    /// formal equality n1*d2 == n2*d1
    pub fn cross_eq(self, o: Fr) -> bool { ck(self.n.checked_mul(o.d)) == ck(o.n.checked_mul(self.d)) }
    /// self * den == num  (i.e. self == num/den as formal identity)
    pub fn eq_ratio(self, num: i128, den: i128) -> bool { ck(self.n.checked_mul(den)) == ck(num.checked_mul(self.d)) }
}
impl Add for Fr { type Output = Fr; fn add(self, o: Fr) -> Fr {
    if self.d == o.d { return Fr::mk(ck(self.n.checked_add(o.n)), self.d); }
    Fr::mk(ck(ck(self.n.checked_mul(o.d)).checked_add(ck(o.n.checked_mul(self.d)))), ck(self.d.checked_mul(o.d)))
} }
impl Neg for Fr { type Output = Fr; fn neg(self) -> Fr { Fr { n: ck(self.n.checked_neg()), d: self.d } } }
impl Sub for Fr { type Output = Fr; fn sub(self, o: Fr) -> Fr { self + (-o) } }
impl Mul for Fr { type Output = Fr; fn mul(self, o: Fr) -> Fr { Fr::mk(ck(self.n.checked_mul(o.n)), ck(self.d.checked_mul(o.d))) } }
impl Div for Fr { type Output = Fr; fn div(self, o: Fr) -> Fr { Fr::mk(ck(self.n.checked_mul(o.d)), ck(self.d.checked_mul(o.n))) } }
impl Rem for Fr { type Output = Fr; fn rem(self, _: Fr) -> Fr { unmodelled("Fr %") } }
impl PartialEq for Fr { fn eq(&self, _: &Fr) -> bool { unmodelled("Fr compared") } }
impl PartialOrd for Fr { fn partial_cmp(&self, _: &Fr) -> Option<Ordering> { unmodelled("Fr compared") } }
impl Zero for Fr { fn zero() -> Fr { Fr::int(0) } fn is_zero(&self) -> bool { unmodelled("Fr compared") } }
impl One for Fr { fn one() -> Fr { Fr::int(1) } }
impl From<u8> for Fr { fn from(v: u8) -> Fr { Fr::int(v as i128) } }
impl From<u16> for Fr { fn from(v: u16) -> Fr { Fr::int(v as i128) } }

/// Tropical degree bound: (degree of numerator, degree of denominator); inputs have (1,0),
/// constants (0,0).
#[derive(Clone, Copy, Debug)]
pub struct Deg { pub n: u32, pub d: u32 }
impl Deg {
    pub const VAR: Deg = Deg { n: 1, d: 0 };
    pub const CONST: Deg = Deg { n: 0, d: 0 };
    /// degree of the cross-multiplied polynomial identity against a reference of degree (rn, rd)
    pub fn cross_degree(self, rn: u32, rd: u32) -> u32 { (self.n + rd).max(rn + self.d) }
}
impl Add for Deg { type Output = Deg; fn add(self, o: Deg) -> Deg {
    if self.d == 0 && o.d == 0 { return Deg { n: self.n.max(o.n), d: 0 }; }
    Deg { n: (self.n + o.d).max(o.n + self.d), d: self.d + o.d }
} }
impl Neg for Deg { type Output = Deg; fn neg(self) -> Deg { self } }
impl Sub for Deg { type Output = Deg; fn sub(self, o: Deg) -> Deg { self + o } }
impl Mul for Deg { type Output = Deg; fn mul(self, o: Deg) -> Deg { Deg { n: self.n + o.n, d: self.d + o.d } } }
impl Div for Deg { type Output = Deg; fn div(self, o: Deg) -> Deg { Deg { n: self.n + o.d, d: self.d + o.n } } }
impl Rem for Deg { type Output = Deg; fn rem(self, _: Deg) -> Deg { unmodelled("Deg %") } }
impl PartialEq for Deg { fn eq(&self, _: &Deg) -> bool { unmodelled("Deg compared (code branches on values)") } }
impl PartialOrd for Deg { fn partial_cmp(&self, _: &Deg) -> Option<Ordering> { unmodelled("Deg compared (code branches on values)") } }
impl Zero for Deg { fn zero() -> Deg { Deg::CONST } fn is_zero(&self) -> bool { unmodelled("Deg compared") } }
impl One for Deg { fn one() -> Deg { Deg::CONST } }
impl From<u8> for Deg { fn from(_: u8) -> Deg { Deg::CONST } }
impl From<u16> for Deg { fn from(_: u16) -> Deg { Deg::CONST } }

macro_rules! ring_only {
    ($T:ident) => {
        impl AddAssign for $T { fn add_assign(&mut self, o: $T) { *self = *self + o; } }
        impl SubAssign for $T { fn sub_assign(&mut self, o: $T) { *self = *self - o; } }
        impl MulAssign for $T { fn mul_assign(&mut self, o: $T) { *self = *self * o; } }
        impl DivAssign for $T { fn div_assign(&mut self, o: $T) { *self = *self / o; } }
        impl RemAssign for $T { fn rem_assign(&mut self, o: $T) { *self = *self % o; } }
        impl Num for $T { type FromStrRadixErr = (); fn from_str_radix(_: &str, _: u32) -> Result<$T, ()> { Err(()) } }
        impl ToPrimitive for $T {
            fn to_i64(&self) -> Option<i64> { unmodelled("cast of a symbolic value") }
            fn to_u64(&self) -> Option<u64> { unmodelled("cast of a symbolic value") }
        }
        impl NumCast for $T { fn from<T: ToPrimitive>(_: T) -> Option<$T> { unmodelled("numcast to a symbolic value") } }
        impl vek::ops::MulAdd<$T, $T> for $T { type Output = $T; fn mul_add(self, a: $T, b: $T) -> $T { self * a + b } }
        impl vek::num_traits::real::Real for $T {
            fn min_value() -> $T { unmodelled("min_value") }
            fn min_positive_value() -> $T { unmodelled("min_positive_value") }
            fn epsilon() -> $T { unmodelled("epsilon (code inspects values)") }
            fn max_value() -> $T { unmodelled("max_value") }
            fn floor(self) -> $T { unmodelled("floor") }
            fn ceil(self) -> $T { unmodelled("ceil") }
            fn round(self) -> $T { unmodelled("round") }
            fn trunc(self) -> $T { unmodelled("trunc") }
            fn fract(self) -> $T { unmodelled("fract") }
            fn abs(self) -> $T { unmodelled("abs") }
            fn signum(self) -> $T { unmodelled("signum") }
            fn is_sign_positive(self) -> bool { unmodelled("sign") }
            fn is_sign_negative(self) -> bool { unmodelled("sign") }
            fn mul_add(self, a: $T, b: $T) -> $T { self * a + b }
            fn recip(self) -> $T { <$T as One>::one() / self }
            fn powi(self, n: i32) -> $T { let mut r = <$T as One>::one(); for _ in 0..n.unsigned_abs() { r = r * self; } if n < 0 { <$T as One>::one() / r } else { r } }
            fn powf(self, _: $T) -> $T { unmodelled("powf") }
            fn sqrt(self) -> $T { unmodelled("sqrt") }
            fn exp(self) -> $T { unmodelled("exp") }
            fn exp2(self) -> $T { unmodelled("exp2") }
            fn ln(self) -> $T { unmodelled("ln") }
            fn log(self, _: $T) -> $T { unmodelled("log") }
            fn log2(self) -> $T { unmodelled("log2") }
            fn log10(self) -> $T { unmodelled("log10") }
            fn to_degrees(self) -> $T { unmodelled("to_degrees") }
            fn to_radians(self) -> $T { unmodelled("to_radians") }
            fn max(self, _: $T) -> $T { unmodelled("max") }
            fn min(self, _: $T) -> $T { unmodelled("min") }
            fn abs_sub(self, _: $T) -> $T { unmodelled("abs_sub") }
            fn cbrt(self) -> $T { unmodelled("cbrt") }
            fn hypot(self, _: $T) -> $T { unmodelled("hypot") }
            fn sin(self) -> $T { unmodelled("sin") }
            fn cos(self) -> $T { unmodelled("cos") }
            fn tan(self) -> $T { unmodelled("tan") }
            fn asin(self) -> $T { unmodelled("asin") }
            fn acos(self) -> $T { unmodelled("acos") }
            fn atan(self) -> $T { unmodelled("atan") }
            fn atan2(self, _: $T) -> $T { unmodelled("atan2") }
            fn sin_cos(self) -> ($T, $T) { unmodelled("sin_cos") }
            fn exp_m1(self) -> $T { unmodelled("exp_m1") }
            fn ln_1p(self) -> $T { unmodelled("ln_1p") }
            fn sinh(self) -> $T { unmodelled("sinh") }
            fn cosh(self) -> $T { unmodelled("cosh") }
            fn tanh(self) -> $T { unmodelled("tanh") }
            fn asinh(self) -> $T { unmodelled("asinh") }
            fn acosh(self) -> $T { unmodelled("acosh") }
            fn atanh(self) -> $T { unmodelled("atanh") }
        }
        impl vek::ops::Lerp<$T> for $T {
            type Output = $T;
            fn lerp_unclamped_precise(from: $T, to: $T, f: $T) -> $T { from * (<$T as One>::one() - f) + to * f }
            fn lerp_unclamped(from: $T, to: $T, f: $T) -> $T { f * (to - from) + from }
        }
        impl vek::ops::Clamp for $T { fn clamped(self, _: $T, _: $T) -> $T { unmodelled("clamp of a symbolic value") } }
    };
}
ring_only!(Fr);
ring_only!(Deg);
