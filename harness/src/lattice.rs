//! Enumerators: the principal simplex lattice  L(n,D) = { a in N^n : sum a_i <= D }  and product grids.

use rayon::prelude::*;

pub fn binom(n: u128, k: u128) -> u128 {
    let k = k.min(n - k);
    let mut r: u128 = 1;
    for i in 0..k { r = r * (n - i) / (i + 1); }
    r
}
/// |L(n,D)| = C(n+D, D)
pub fn lattice_count(n: usize, d: u32) -> u128 { binom(n as u128 + d as u128, d as u128) }

fn rec(buf: &mut [i64], pos: usize, left: u32, f: &mut dyn FnMut(&[i64])) {
    if pos == buf.len() { if crate::report::flooded() { return; } f(buf); return; }
    for v in 0..=left {
        buf[pos] = v as i64;
        rec(buf, pos + 1, left - v, f);
    }
}
/// Visit every point of L(n,D) once (sequential, lexicographic).
pub fn lattice(n: usize, d: u32, mut f: impl FnMut(&[i64])) {
    let mut buf = vec![0i64; n];
    rec(&mut buf, 0, d, &mut f);
}
/// Visit every point of L(n,D) once, in parallel (work split on the first `split` coordinates).
pub fn par_lattice(n: usize, d: u32, f: impl Fn(&[i64]) + Sync) {
    // split deep enough for a few thousand work items (good balance on 16 cores)
    let mut split = n.min(3);
    while split < n && split < 8 && lattice_count(split, d) < 4000 { split += 1; }
    let mut prefixes: Vec<Vec<i64>> = Vec::new();
    lattice(split, d, |p| prefixes.push(p.to_vec()));
    // heaviest first: small prefix sums leave the largest remainders
    prefixes.sort_by_key(|p| p.iter().sum::<i64>());
    prefixes.par_iter().for_each(|p| {
        let used: i64 = p.iter().sum();
        let mut buf = vec![0i64; n];
        buf[..split].copy_from_slice(p);
        let mut g = |b: &[i64]| f(b);
        rec(&mut buf, split, d - used as u32, &mut g);
    });
}

/// Cartesian product of per-coordinate alphabets (sequential).
pub fn product<T: Copy>(alph: &[&[T]], mut f: impl FnMut(&[T])) {
    if alph.iter().any(|a| a.is_empty()) { return; }
    let n = alph.len();
    let mut idx = vec![0usize; n];
    let mut cur: Vec<T> = alph.iter().map(|a| a[0]).collect();
    loop {
        if crate::report::flooded() { return; }
        f(&cur);
        let mut i = n;
        loop {
            if i == 0 { return; }
            i -= 1;
            idx[i] += 1;
            if idx[i] < alph[i].len() { cur[i] = alph[i][idx[i]]; break; }
            idx[i] = 0; cur[i] = alph[i][0];
        }
    }
}
/// All tuples of `n` values from one alphabet (sequential).
pub fn tuples<T: Copy>(alph: &[T], n: usize, f: impl FnMut(&[T])) {
    let v: Vec<&[T]> = (0..n).map(|_| alph).collect();
    product(&v, f)
}
/// Parallel over the first coordinate.
pub fn par_tuples<T: Copy + Sync + Send>(alph: &[T], n: usize, f: impl Fn(&[T]) + Sync) {
    assert!(n >= 1);
    alph.par_iter().for_each(|&first| {
        let mut cur = vec![first; n];
        if n == 1 { f(&cur); return; }
        tuples(alph, n - 1, |rest| { cur[1..].copy_from_slice(rest); f(&cur); });
    });
}

/// All permutations of 0..n with their sign (for Leibniz expansions).
pub fn signed_permutations(n: usize) -> Vec<(Vec<usize>, i64)> {
    fn go(cur: &mut Vec<usize>, used: &mut Vec<bool>, n: usize, out: &mut Vec<(Vec<usize>, i64)>) {
        if cur.len() == n {
            let mut inv = 0;
            for i in 0..n { for j in i + 1..n { if cur[i] > cur[j] { inv += 1; } } }
            out.push((cur.clone(), if inv % 2 == 0 { 1 } else { -1 }));
            return;
        }
        for v in 0..n {
            if !used[v] { used[v] = true; cur.push(v); go(cur, used, n, out); cur.pop(); used[v] = false; }
        }
    }
    let mut out = Vec::new();
    go(&mut Vec::new(), &mut vec![false; n], n, &mut out);
    out
}
