//! vx: harness library for deciding the vek properties by bounded-exhaustive exploration.
pub mod q;
pub mod fr;
pub mod term;
pub mod tok;
pub mod lattice;
pub mod report;
pub mod matx;
pub mod fl;
pub mod vecs;

pub use q::{q, qi, Q, X};
pub use report::{catch, Caught, Report, Section, Tier};
pub use serde_json::{json, Value};

/// JSON rendering helpers for exact values
pub fn jx(x: X) -> Value { Value::String(format!("{:?}", x)) }
pub fn jxs(xs: &[X]) -> Value { Value::Array(xs.iter().map(|x| jx(*x)).collect()) }
pub fn jmat<const N: usize>(m: &matx::A<X, N>) -> Value { Value::Array(m.iter().map(|r| jxs(r)).collect()) }
pub fn jd<T: std::fmt::Debug>(t: &T) -> Value { Value::String(format!("{:?}", t)) }
