//! Binding between vek's matrix/vector structs and plain arrays **through public fields only**
//! (no vek constructor, accessor or conversion sits in an oracle path), plus textbook reference
//! linear algebra over arrays.

use num_traits::{One, Zero};
use std::ops::{Add, Mul, Neg, Sub};

pub use vek::mat::repr_c::column_major as cm;
pub use vek::mat::repr_c::row_major as rm;
pub use vek::vec::repr_c::{Vec2, Vec3, Vec4};

pub type A<T, const N: usize> = [[T; N]; N];

// ---- build / decode by struct literal and field access -----------------------------------------
pub fn r2<T: Copy>(a: &A<T, 2>) -> rm::Mat2<T> { rm::Mat2 { rows: Vec2 { x: Vec2 { x: a[0][0], y: a[0][1] }, y: Vec2 { x: a[1][0], y: a[1][1] } } } }
pub fn c2<T: Copy>(a: &A<T, 2>) -> cm::Mat2<T> { cm::Mat2 { cols: Vec2 { x: Vec2 { x: a[0][0], y: a[1][0] }, y: Vec2 { x: a[0][1], y: a[1][1] } } } }
pub fn dr2<T: Copy>(m: &rm::Mat2<T>) -> A<T, 2> { [[m.rows.x.x, m.rows.x.y], [m.rows.y.x, m.rows.y.y]] }
pub fn dc2<T: Copy>(m: &cm::Mat2<T>) -> A<T, 2> { [[m.cols.x.x, m.cols.y.x], [m.cols.x.y, m.cols.y.y]] }

pub fn r3<T: Copy>(a: &A<T, 3>) -> rm::Mat3<T> {
    let v = |i: usize| Vec3 { x: a[i][0], y: a[i][1], z: a[i][2] };
    rm::Mat3 { rows: Vec3 { x: v(0), y: v(1), z: v(2) } }
}
pub fn c3<T: Copy>(a: &A<T, 3>) -> cm::Mat3<T> {
    let v = |j: usize| Vec3 { x: a[0][j], y: a[1][j], z: a[2][j] };
    cm::Mat3 { cols: Vec3 { x: v(0), y: v(1), z: v(2) } }
}
pub fn dr3<T: Copy>(m: &rm::Mat3<T>) -> A<T, 3> {
    let r = &m.rows;
    [[r.x.x, r.x.y, r.x.z], [r.y.x, r.y.y, r.y.z], [r.z.x, r.z.y, r.z.z]]
}
pub fn dc3<T: Copy>(m: &cm::Mat3<T>) -> A<T, 3> {
    let c = &m.cols;
    [[c.x.x, c.y.x, c.z.x], [c.x.y, c.y.y, c.z.y], [c.x.z, c.y.z, c.z.z]]
}
pub fn r4<T: Copy>(a: &A<T, 4>) -> rm::Mat4<T> {
    let v = |i: usize| Vec4 { x: a[i][0], y: a[i][1], z: a[i][2], w: a[i][3] };
    rm::Mat4 { rows: Vec4 { x: v(0), y: v(1), z: v(2), w: v(3) } }
}
pub fn c4<T: Copy>(a: &A<T, 4>) -> cm::Mat4<T> {
    let v = |j: usize| Vec4 { x: a[0][j], y: a[1][j], z: a[2][j], w: a[3][j] };
    cm::Mat4 { cols: Vec4 { x: v(0), y: v(1), z: v(2), w: v(3) } }
}
pub fn dr4<T: Copy>(m: &rm::Mat4<T>) -> A<T, 4> {
    let r = &m.rows;
    [[r.x.x, r.x.y, r.x.z, r.x.w], [r.y.x, r.y.y, r.y.z, r.y.w], [r.z.x, r.z.y, r.z.z, r.z.w], [r.w.x, r.w.y, r.w.z, r.w.w]]
}
pub fn dc4<T: Copy>(m: &cm::Mat4<T>) -> A<T, 4> {
    let c = &m.cols;
    [[c.x.x, c.y.x, c.z.x, c.w.x], [c.x.y, c.y.y, c.z.y, c.w.y], [c.x.z, c.y.z, c.z.z, c.w.z], [c.x.w, c.y.w, c.z.w, c.w.w]]
}
pub fn v2<T: Copy>(a: &[T]) -> Vec2<T> { Vec2 { x: a[0], y: a[1] } }
pub fn v3<T: Copy>(a: &[T]) -> Vec3<T> { Vec3 { x: a[0], y: a[1], z: a[2] } }
pub fn v4<T: Copy>(a: &[T]) -> Vec4<T> { Vec4 { x: a[0], y: a[1], z: a[2], w: a[3] } }
pub fn dv2<T: Copy>(v: &Vec2<T>) -> [T; 2] { [v.x, v.y] }
pub fn dv3<T: Copy>(v: &Vec3<T>) -> [T; 3] { [v.x, v.y, v.z] }
pub fn dv4<T: Copy>(v: &Vec4<T>) -> [T; 4] { [v.x, v.y, v.z, v.w] }

/// Uniform access to the six matrix types for macro-generated sections.
pub trait MatIO<T: Copy, const N: usize>: Sized {
    const LAYOUT: &'static str;
    fn build(a: &A<T, N>) -> Self;
    fn decode(&self) -> A<T, N>;
}
macro_rules! matio { ($M:ty, $N:expr, $lay:expr, $b:ident, $d:ident) => {
    impl<T: Copy> MatIO<T, $N> for $M { const LAYOUT: &'static str = $lay; fn build(a: &A<T, $N>) -> Self { $b(a) } fn decode(&self) -> A<T, $N> { $d(self) } }
} }
matio!(rm::Mat2<T>, 2, "row", r2, dr2);
matio!(cm::Mat2<T>, 2, "col", c2, dc2);
matio!(rm::Mat3<T>, 3, "row", r3, dr3);
matio!(cm::Mat3<T>, 3, "col", c3, dc3);
matio!(rm::Mat4<T>, 4, "row", r4, dr4);
matio!(cm::Mat4<T>, 4, "col", c4, dc4);

pub trait VecIO<T: Copy, const N: usize>: Sized { fn build(a: &[T; N]) -> Self; fn decode(&self) -> [T; N]; }
impl<T: Copy> VecIO<T, 2> for Vec2<T> { fn build(a: &[T; 2]) -> Self { v2(a) } fn decode(&self) -> [T; 2] { dv2(self) } }
impl<T: Copy> VecIO<T, 3> for Vec3<T> { fn build(a: &[T; 3]) -> Self { v3(a) } fn decode(&self) -> [T; 3] { dv3(self) } }
impl<T: Copy> VecIO<T, 4> for Vec4<T> { fn build(a: &[T; 4]) -> Self { v4(a) } fn decode(&self) -> [T; 4] { dv4(self) } }

// ---- reference linear algebra ------------------------------------------------------------------
pub trait Ring: Copy + Add<Output = Self> + Sub<Output = Self> + Mul<Output = Self> + Neg<Output = Self> + Zero + One {}
impl<T: Copy + Add<Output = T> + Sub<Output = T> + Mul<Output = T> + Neg<Output = T> + Zero + One> Ring for T {}

pub fn zeros<T: Ring, const N: usize>() -> A<T, N> { [[T::zero(); N]; N] }
pub fn ident<T: Ring, const N: usize>() -> A<T, N> { let mut m = zeros::<T, N>(); for i in 0..N { m[i][i] = T::one(); } m }
pub fn mmul<T: Ring, const N: usize>(a: &A<T, N>, b: &A<T, N>) -> A<T, N> {
    let mut out = zeros::<T, N>();
    for i in 0..N { for j in 0..N { let mut s = T::zero(); for k in 0..N { s = s + a[i][k] * b[k][j]; } out[i][j] = s; } }
    out
}
/// M * column vector
pub fn mvec<T: Ring, const N: usize>(a: &A<T, N>, v: &[T; N]) -> [T; N] {
    let mut out = [T::zero(); N];
    for i in 0..N { let mut s = T::zero(); for k in 0..N { s = s + a[i][k] * v[k]; } out[i] = s; }
    out
}
/// row vector * M
pub fn vmat<T: Ring, const N: usize>(v: &[T; N], a: &A<T, N>) -> [T; N] {
    let mut out = [T::zero(); N];
    for j in 0..N { let mut s = T::zero(); for k in 0..N { s = s + v[k] * a[k][j]; } out[j] = s; }
    out
}
pub fn transpose<T: Copy, const N: usize>(a: &A<T, N>) -> A<T, N> { let mut o = *a; for i in 0..N { for j in 0..N { o[i][j] = a[j][i]; } } o }
/// Leibniz expansion over all signed permutations.
pub fn det<T: Ring, const N: usize>(a: &A<T, N>) -> T {
    let mut s = T::zero();
    for (p, sg) in crate::lattice::signed_permutations(N) {
        let mut t = T::one();
        for i in 0..N { t = t * a[i][p[i]]; }
        s = if sg > 0 { s + t } else { s - t };
    }
    s
}
/// Determinant of the minor obtained by deleting row r and column c (N <= 4).
pub fn minor<T: Ring, const N: usize>(a: &A<T, N>, r: usize, c: usize) -> T {
    let rows: Vec<usize> = (0..N).filter(|&i| i != r).collect();
    let cols: Vec<usize> = (0..N).filter(|&j| j != c).collect();
    let n = N - 1;
    let mut s = T::zero();
    for (p, sg) in crate::lattice::signed_permutations(n) {
        let mut t = T::one();
        for i in 0..n { t = t * a[rows[i]][cols[p[i]]]; }
        s = if sg > 0 { s + t } else { s - t };
    }
    s
}
/// adj(A)[i][j] = (-1)^(i+j) * minor(j,i)
pub fn adjugate<T: Ring, const N: usize>(a: &A<T, N>) -> A<T, N> {
    let mut o = zeros::<T, N>();
    for i in 0..N { for j in 0..N { let m = minor(a, j, i); o[i][j] = if (i + j) % 2 == 0 { m } else { -m }; } }
    o
}
pub fn embed<T: Ring, const N: usize, const M: usize>(a: &A<T, N>) -> A<T, M> {
    let mut o = ident::<T, M>();
    for i in 0..N.min(M) { for j in 0..N.min(M) { o[i][j] = a[i][j]; } }
    o
}
pub fn cross3<T: Ring>(a: &[T; 3], b: &[T; 3]) -> [T; 3] { [a[1] * b[2] - a[2] * b[1], a[2] * b[0] - a[0] * b[2], a[0] * b[1] - a[1] * b[0]] }
pub fn dotn<T: Ring, const N: usize>(a: &[T; N], b: &[T; N]) -> T { let mut s = T::zero(); for i in 0..N { s = s + a[i] * b[i]; } s }

// ---- rational rotations -------------------------------------------------------------------------
use crate::q::{q, qi, X};
/// Rodrigues' formula from the definition: R v = v cos + (k x v) sin + k (k.v)(1-cos), applied to the basis.
pub fn rodrigues(k: &[X; 3], c: X, s: X) -> A<X, 3> {
    let mut m = [[qi(0); 3]; 3];
    for j in 0..3 {
        let mut e = [qi(0); 3]; e[j] = qi(1);
        let kxe = cross3(k, &e);
        let kd = dotn(k, &e);
        for i in 0..3 { m[i][j] = e[i] * c + kxe[i] * s + k[i] * kd * (qi(1) - c); }
    }
    m
}
/// (cos, sin) of rational points of the unit circle: parameter t -> ((1-t^2)/(1+t^2), 2t/(1+t^2)), plus (-1,0).
pub fn circle_points() -> Vec<(X, X)> {
    let mut v = vec![(qi(-1), qi(0))];
    for (n, d) in [(0, 1), (1, 1), (-1, 1), (1, 2), (-1, 2), (2, 1), (-3, 1), (1, 3), (1, 5), (-5, 2), (3, 4)] {
        let t = q(n, d); let t2 = t * t;
        v.push(((qi(1) - t2) / (qi(1) + t2), (t + t) / (qi(1) + t2)));
    }
    v
}
/// rational unit vectors: sign/permutation closure of a few Pythagorean quadruples
pub fn unit_axes() -> Vec<[X; 3]> {
    let seeds: [([i128; 3], i128); 6] = [([1, 0, 0], 1), ([1, 2, 2], 3), ([2, 3, 6], 7), ([0, 3, 4], 5), ([1, 4, 8], 9), ([4, 4, 7], 9)];
    let perms = [[0, 1, 2], [0, 2, 1], [1, 0, 2], [1, 2, 0], [2, 0, 1], [2, 1, 0]];
    let mut out: Vec<[X; 3]> = Vec::new();
    for (v, n) in seeds { for p in perms { for sg in 0..8 {
        let a = [q(v[p[0]] * if sg & 1 == 0 { 1 } else { -1 }, n), q(v[p[1]] * if sg & 2 == 0 { 1 } else { -1 }, n), q(v[p[2]] * if sg & 4 == 0 { 1 } else { -1 }, n)];
        if !out.contains(&a) { out.push(a); }
    } } }
    out
}
/// 4x4 homogeneous matrix from a 3x3 linear part and a translation
pub fn affine4(l: &A<X, 3>, t: &[X; 3]) -> A<X, 4> {
    let mut m = ident::<X, 4>();
    for i in 0..3 { for j in 0..3 { m[i][j] = l[i][j]; } m[i][3] = t[i]; }
    m
}
