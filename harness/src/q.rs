//! Exact element type `X` for driving vek's generic code.
//!
//! `X::R(q)` is an exact rational (i128/i128, every operation overflow-checked).
//! `X::A{base,k}` is an *angle token*: the angle `k * arg(z_base)` for a unit Gaussian
//! rational `z_base` taken from a per-thread table. `sin/cos/tan` of a token with integer `k`
//! are exact rationals (`z^k`). `acos/asin/atan2` of rationals are resolved in a per-thread
//! finite alphabet registered by the check. Anything the type cannot represent exactly raises an
//! `Unmodelled` panic payload, which drivers count separately and never treat as a verdict.

use num_traits::{FloatConst, Num, NumCast, One, ToPrimitive, Zero};
use std::cell::RefCell;
use std::cmp::Ordering;
use std::fmt;
use std::ops::*;

/// Panic payload for "the harness element type cannot model this operation".
#[derive(Debug, Clone)]
pub struct Unmodelled(pub &'static str);

#[cold]
pub fn unmodelled(what: &'static str) -> ! {
    std::panic::panic_any(Unmodelled(what))
}

fn gcd(mut a: i128, mut b: i128) -> i128 {
    a = a.abs();
    b = b.abs();
    while b != 0 {
        let t = a % b;
        a = b;
        b = t;
    }
    a
}

/// Exact rational, always normalised (den > 0, gcd = 1).
#[derive(Clone, Copy, PartialEq, Eq, Hash)]
pub struct Q {
    pub n: i128,
    pub d: i128,
}

impl fmt::Debug for Q {
    fn fmt(&self, f: &mut fmt::Formatter) -> fmt::Result {
        if self.d == 1 { write!(f, "{}", self.n) } else { write!(f, "{}/{}", self.n, self.d) }
    }
}
impl fmt::Display for Q {
    fn fmt(&self, f: &mut fmt::Formatter) -> fmt::Result { fmt::Debug::fmt(self, f) }
}

#[inline]
fn ck(x: Option<i128>) -> i128 {
    match x { Some(v) => v, None => unmodelled("rational overflow") }
}

impl Q {
    pub const ZERO: Q = Q { n: 0, d: 1 };
    pub const ONE: Q = Q { n: 1, d: 1 };
    pub fn new(n: i128, d: i128) -> Q {
        if d == 0 { unmodelled("division by zero") }
        let g = gcd(n, d);
        let (mut n, mut d) = (n / g, d / g);
        if d < 0 { n = ck(n.checked_neg()); d = ck(d.checked_neg()); }
        Q { n, d }
    }
    pub const fn int(n: i128) -> Q { Q { n, d: 1 } }
    pub fn is_int(self) -> bool { self.d == 1 }
    pub fn add(self, o: Q) -> Q {
        if self.d == o.d { return Q::new(ck(self.n.checked_add(o.n)), self.d); }
        let g = gcd(self.d, o.d);
        let l = self.d / g;
        let r = o.d / g;
        Q::new(ck(ck(self.n.checked_mul(r)).checked_add(ck(o.n.checked_mul(l)))), ck(self.d.checked_mul(r)))
    }
    pub fn neg(self) -> Q { Q { n: ck(self.n.checked_neg()), d: self.d } }
    pub fn sub(self, o: Q) -> Q { self.add(o.neg()) }
    pub fn mul(self, o: Q) -> Q {
        let g1 = gcd(self.n, o.d).max(1);
        let g2 = gcd(o.n, self.d).max(1);
        Q::new(ck((self.n / g1).checked_mul(o.n / g2)), ck((self.d / g2).checked_mul(o.d / g1)))
    }
    pub fn recip(self) -> Q { if self.n == 0 { unmodelled("division by zero") } Q::new(self.d, self.n) }
    pub fn div(self, o: Q) -> Q { self.mul(o.recip()) }
    pub fn cmp(self, o: Q) -> Ordering {
        ck(self.n.checked_mul(o.d)).cmp(&ck(o.n.checked_mul(self.d)))
    }
    pub fn abs(self) -> Q { if self.n < 0 { self.neg() } else { self } }
    pub fn floor(self) -> Q { Q::int(self.n.div_euclid(self.d)) }
    pub fn ceil(self) -> Q { self.neg().floor().neg() }
    /// round half away from zero (like f64::round)
    pub fn round(self) -> Q {
        let half = Q::new(1, 2);
        if self.n >= 0 { self.add(half).floor() } else { self.sub(half).ceil() }
    }
    pub fn trunc(self) -> Q { if self.n >= 0 { self.floor() } else { self.ceil() } }
    pub fn to_f64(self) -> f64 { self.n as f64 / self.d as f64 }
    pub fn powi(self, n: i32) -> Q {
        let mut r = Q::ONE;
        let b = if n < 0 { self.recip() } else { self };
        for _ in 0..n.unsigned_abs() { r = r.mul(b); }
        r
    }
    pub fn isqrt(v: i128) -> Option<i128> {
        if v < 0 { return None; }
        let mut r = (v as f64).sqrt() as i128;
        while r * r > v { r -= 1; }
        while (r + 1) * (r + 1) <= v { r += 1; }
        if r * r == v { Some(r) } else { None }
    }
    pub fn sqrt_exact(self) -> Option<Q> {
        Some(Q { n: Q::isqrt(self.n)?, d: Q::isqrt(self.d)? })
    }
    /// exact conversion from a finite f64 (dyadic rational); None if too large for i128
    pub fn from_f64(v: f64) -> Option<Q> {
        if !v.is_finite() { return None; }
        if v == 0.0 { return Some(Q::ZERO); }
        let bits = v.to_bits();
        let sign: i128 = if bits >> 63 == 1 { -1 } else { 1 };
        let exp = ((bits >> 52) & 0x7ff) as i32;
        let frac = (bits & ((1u64 << 52) - 1)) as i128;
        let (mant, e) = if exp == 0 { (frac, -1074) } else { (frac | (1i128 << 52), exp - 1075) };
        // value = mant * 2^e
        let tz = mant.trailing_zeros() as i32;
        let mant = mant >> tz;
        let e = e + tz;
        if e >= 0 {
            if e > 70 { return None; }
            Some(Q::int(sign * mant.checked_mul(1i128 << e)?))
        } else {
            if -e > 126 { return None; }
            Some(Q::new(sign * mant, 1i128 << (-e)))
        }
    }
}
impl PartialOrd for Q { fn partial_cmp(&self, o: &Q) -> Option<Ordering> { Some(Q::cmp(*self, *o)) } }
impl Ord for Q { fn cmp(&self, o: &Q) -> Ordering { Q::cmp(*self, *o) } }

/// shorthand constructors
pub fn q(n: i128, d: i128) -> X { X::R(Q::new(n, d)) }
pub fn qi(n: i128) -> X { X::R(Q::int(n)) }

// ------------------------------------------------------------------------------------------------
// Angle tables (per thread)

#[derive(Clone, Copy, Debug, PartialEq)]
pub struct Base { pub c: Q, pub s: Q }

thread_local! {
    /// base 0 is always z = i (arg = pi/2)
    static BASES: RefCell<Vec<Base>> = RefCell::new(vec![Base { c: Q::ZERO, s: Q::ONE }]);
    /// inverse-trig alphabet: (cos, sin) -> token, searched by acos/asin/atan2
    static INV: RefCell<Vec<(Q, Q, X)>> = RefCell::new(Vec::new());
}

/// Registers (or finds) the unit complex number (c,s) and returns its base index.
pub fn angle_base(c: Q, s: Q) -> u8 {
    assert!(c.mul(c).add(s.mul(s)) == Q::ONE, "angle base must be on the unit circle");
    BASES.with(|b| {
        let mut b = b.borrow_mut();
        if let Some(i) = b.iter().position(|x| x.c == c && x.s == s) { return i as u8; }
        assert!(b.len() < 250);
        b.push(Base { c, s });
        (b.len() - 1) as u8
    })
}
/// Base from the rational parameter t: z = ((1-t^2)/(1+t^2), 2t/(1+t^2)).
pub fn angle_base_t(tn: i128, td: i128) -> u8 {
    let t = Q::new(tn, td);
    let t2 = t.mul(t);
    let den = Q::ONE.add(t2);
    angle_base(Q::ONE.sub(t2).div(den), t.add(t).div(den))
}
pub fn base_of(i: u8) -> Base { BASES.with(|b| b.borrow()[i as usize]) }
pub fn reset_angles() {
    BASES.with(|b| b.borrow_mut().truncate(1));
    INV.with(|t| t.borrow_mut().clear());
}
/// Make `tok` a possible answer of acos/asin/atan2 (tok must have integer k).
pub fn register_inverse(tok: X) {
    let (s, c) = tok.sin_cos_q();
    INV.with(|t| {
        let mut t = t.borrow_mut();
        if !t.iter().any(|e| e.2 == tok) { t.push((c, s, tok)); }
    });
}
pub fn clear_inverse() { INV.with(|t| t.borrow_mut().clear()); }

/// z^k for the unit complex number (c,s), k any integer.
pub fn cpow(b: Base, k: i128) -> (Q, Q) {
    let (mut rc, mut rs) = (Q::ONE, Q::ZERO);
    let (bc, bs) = if k < 0 { (b.c, b.s.neg()) } else { (b.c, b.s) };
    let mut e = k.unsigned_abs();
    let (mut pc, mut ps) = (bc, bs);
    while e > 0 {
        if e & 1 == 1 {
            let nc = rc.mul(pc).sub(rs.mul(ps));
            let ns = rc.mul(ps).add(rs.mul(pc));
            rc = nc; rs = ns;
        }
        e >>= 1;
        if e > 0 {
            let nc = pc.mul(pc).sub(ps.mul(ps));
            let ns = pc.mul(ps).add(pc.mul(ps));
            pc = nc; ps = ns;
        }
    }
    (rc, rs)
}

// ------------------------------------------------------------------------------------------------

/// The exact element type.
#[derive(Clone, Copy, PartialEq, Eq, Hash)]
pub enum X {
    R(Q),
    A { base: u8, k: Q },
}

impl fmt::Debug for X {
    fn fmt(&self, f: &mut fmt::Formatter) -> fmt::Result {
        match self {
            X::R(q) => write!(f, "{:?}", q),
            X::A { base, k } => write!(f, "{:?}*ang{}", k, base),
        }
    }
}
impl fmt::Display for X {
    fn fmt(&self, f: &mut fmt::Formatter) -> fmt::Result { fmt::Debug::fmt(self, f) }
}
impl Default for X { fn default() -> X { X::R(Q::ZERO) } }

impl X {
    pub fn tok(base: u8, k: i128) -> X { X::A { base, k: Q::int(k) } }
    pub fn pi() -> X { X::A { base: 0, k: Q::int(2) } }
    pub fn rat(self) -> Q {
        match self { X::R(q) => q, X::A { k, .. } if k.n == 0 => Q::ZERO, _ => unmodelled("angle token used as a number") }
    }
    pub fn is_rat(self) -> bool { matches!(self, X::R(_)) }
    /// f64 shadow (only used for ordering tokens and diagnostics)
    pub fn shadow(self) -> f64 {
        match self {
            X::R(q) => q.to_f64(),
            X::A { base, k } => { let b = base_of(base); b.s.to_f64().atan2(b.c.to_f64()) * k.to_f64() }
        }
    }
    /// (sin, cos) as exact rationals; for rationals only 0 is allowed.
    pub fn sin_cos_q(self) -> (Q, Q) {
        match self {
            X::R(q) if q.n == 0 => (Q::ZERO, Q::ONE),
            X::R(_) => unmodelled("sin/cos of a non-zero rational"),
            X::A { base, k } => {
                if !k.is_int() { unmodelled("sin/cos of a fractional angle token") }
                let (c, s) = cpow(base_of(base), k.n);
                (s, c)
            }
        }
    }
    fn scale(self, f: Q) -> X {
        match self { X::R(q) => X::R(q.mul(f)), X::A { base, k } => X::A { base, k: k.mul(f) } }
    }
    fn lookup_inverse(pred: impl Fn(Q, Q, X) -> bool) -> Option<X> {
        INV.with(|t| t.borrow().iter().find(|e| pred(e.0, e.1, e.2)).map(|e| e.2))
    }
}

impl From<Q> for X { fn from(q: Q) -> X { X::R(q) } }
impl From<u8> for X { fn from(v: u8) -> X { qi(v as i128) } }
impl From<u16> for X { fn from(v: u16) -> X { qi(v as i128) } }
impl From<i32> for X { fn from(v: i32) -> X { qi(v as i128) } }

impl Add for X {
    type Output = X;
    fn add(self, o: X) -> X {
        match (self, o) {
            (X::R(a), X::R(b)) => X::R(a.add(b)),
            (X::A { base: b1, k: k1 }, X::A { base: b2, k: k2 }) if b1 == b2 => X::A { base: b1, k: k1.add(k2) },
            (X::A { .. }, X::R(z)) if z.n == 0 => self,
            (X::R(z), X::A { .. }) if z.n == 0 => o,
            (X::A { k, .. }, X::R(_)) if k.n == 0 => o,
            (X::R(_), X::A { k, .. }) if k.n == 0 => self,
            _ => unmodelled("angle token + incompatible value"),
        }
    }
}
impl Neg for X {
    type Output = X;
    fn neg(self) -> X { match self { X::R(a) => X::R(a.neg()), X::A { base, k } => X::A { base, k: k.neg() } } }
}
impl Sub for X { type Output = X; fn sub(self, o: X) -> X { self + (-o) } }
impl Mul for X {
    type Output = X;
    fn mul(self, o: X) -> X {
        match (self, o) {
            (X::R(a), X::R(b)) => X::R(a.mul(b)),
            (X::A { .. }, X::R(f)) => self.scale(f),
            (X::R(f), X::A { .. }) => o.scale(f),
            _ => unmodelled("angle token * angle token"),
        }
    }
}
impl Div for X {
    type Output = X;
    fn div(self, o: X) -> X {
        match (self, o) {
            (X::R(a), X::R(b)) => X::R(a.div(b)),
            (X::A { .. }, X::R(f)) => self.scale(f.recip()),
            (X::A { base: b1, k: k1 }, X::A { base: b2, k: k2 }) if b1 == b2 => X::R(k1.div(k2)),
            _ => unmodelled("value / angle token"),
        }
    }
}
impl Rem for X {
    type Output = X;
    fn rem(self, o: X) -> X {
        // truncated remainder, like f64 %
        let (a, b) = (self.rat(), o.rat());
        X::R(a.sub(a.div(b).trunc().mul(b)))
    }
}
macro_rules! assign_ops { ($($Tr:ident $f:ident $op:tt),*) => { $(impl $Tr for X { fn $f(&mut self, o: X) { *self = *self $op o; } })* } }
assign_ops!(AddAssign add_assign +, SubAssign sub_assign -, MulAssign mul_assign *, DivAssign div_assign /, RemAssign rem_assign %);

impl PartialOrd for X {
    fn partial_cmp(&self, o: &X) -> Option<Ordering> {
        match (self, o) {
            (X::R(a), X::R(b)) => Some(Q::cmp(*a, *b)),
            _ => {
                if self == o { return Some(Ordering::Equal); }
                // tokens are only ordered for precondition guards (fov > 0, fov < 2pi): f64 shadow
                self.shadow().partial_cmp(&o.shadow())
            }
        }
    }
}

impl Zero for X { fn zero() -> X { X::R(Q::ZERO) } fn is_zero(&self) -> bool { match self { X::R(q) => q.n == 0, X::A { k, .. } => k.n == 0 } } }
impl One for X { fn one() -> X { X::R(Q::ONE) } }
impl Num for X {
    type FromStrRadixErr = ();
    fn from_str_radix(_: &str, _: u32) -> Result<X, ()> { Err(()) }
}
impl ToPrimitive for X {
    fn to_i64(&self) -> Option<i64> { let q = self.rat().trunc(); i64::try_from(q.n).ok() }
    fn to_u64(&self) -> Option<u64> { let q = self.rat().trunc(); u64::try_from(q.n).ok() }
    fn to_f64(&self) -> Option<f64> { Some(self.shadow()) }
    fn to_f32(&self) -> Option<f32> { Some(self.shadow() as f32) }
}
impl NumCast for X {
    fn from<T: ToPrimitive>(n: T) -> Option<X> {
        if let Some(i) = n.to_i64() {
            // exact for integers; floats with a fractional part go through f64
            if n.to_f64().map_or(true, |f| f == i as f64) { return Some(qi(i as i128)); }
        }
        n.to_f64().and_then(Q::from_f64).map(X::R)
    }
}
impl vek::num_traits::AsPrimitive<X> for X { fn as_(self) -> X { self } }
impl vek::num_traits::AsPrimitive<f64> for X { fn as_(self) -> f64 { self.shadow() } }
impl vek::num_traits::AsPrimitive<X> for i32 { fn as_(self) -> X { qi(self as i128) } }

impl FloatConst for X {
    fn PI() -> X { X::pi() }
    fn TAU() -> X { X::A { base: 0, k: Q::int(4) } }
    fn FRAC_PI_2() -> X { X::A { base: 0, k: Q::int(1) } }
    fn FRAC_PI_4() -> X { X::A { base: 0, k: Q::new(1, 2) } }
    fn FRAC_PI_3() -> X { X::A { base: 0, k: Q::new(2, 3) } }
    fn FRAC_PI_6() -> X { X::A { base: 0, k: Q::new(1, 3) } }
    fn FRAC_PI_8() -> X { X::A { base: 0, k: Q::new(1, 4) } }
    fn E() -> X { unmodelled("E") }
    fn FRAC_1_PI() -> X { unmodelled("1/pi") }
    fn FRAC_1_SQRT_2() -> X { unmodelled("1/sqrt2") }
    fn FRAC_2_PI() -> X { unmodelled("2/pi") }
    fn FRAC_2_SQRT_PI() -> X { unmodelled("2/sqrtpi") }
    fn LN_10() -> X { unmodelled("ln10") }
    fn LN_2() -> X { unmodelled("ln2") }
    fn LOG10_E() -> X { unmodelled("log10e") }
    fn LOG2_E() -> X { unmodelled("log2e") }
    fn SQRT_2() -> X { unmodelled("sqrt2") }
}

impl vek::num_traits::real::Real for X {
    fn min_value() -> X { unmodelled("min_value") }
    fn min_positive_value() -> X { unmodelled("min_positive_value") }
    fn epsilon() -> X { X::R(Q::new(1, 1i128 << 52)) }
    fn max_value() -> X { unmodelled("max_value") }
    fn floor(self) -> X { X::R(self.rat().floor()) }
    fn ceil(self) -> X { X::R(self.rat().ceil()) }
    fn round(self) -> X { X::R(self.rat().round()) }
    fn trunc(self) -> X { X::R(self.rat().trunc()) }
    fn fract(self) -> X { let q = self.rat(); X::R(q.sub(q.trunc())) }
    fn abs(self) -> X { match self { X::R(q) => X::R(q.abs()), X::A { base, k } => { if self.shadow() < 0.0 { X::A { base, k: k.neg() } } else { self } } } }
    fn signum(self) -> X { let q = self.rat(); qi(if q.n > 0 { 1 } else if q.n < 0 { -1 } else { 1 }) }
    fn is_sign_positive(self) -> bool { self.shadow() >= 0.0 }
    fn is_sign_negative(self) -> bool { self.shadow() < 0.0 }
    fn mul_add(self, a: X, b: X) -> X { self * a + b }
    fn recip(self) -> X { X::R(self.rat().recip()) }
    fn powi(self, n: i32) -> X { X::R(self.rat().powi(n)) }
    fn powf(self, _: X) -> X { unmodelled("powf") }
    fn sqrt(self) -> X {
        let q = self.rat();
        if q.n < 0 { unmodelled("sqrt of a negative") }
        match q.sqrt_exact() { Some(r) => X::R(r), None => unmodelled("irrational sqrt") }
    }
    fn exp(self) -> X { unmodelled("exp") }
    fn exp2(self) -> X { unmodelled("exp2") }
    fn ln(self) -> X { unmodelled("ln") }
    fn log(self, _: X) -> X { unmodelled("log") }
    fn log2(self) -> X { unmodelled("log2") }
    fn log10(self) -> X { unmodelled("log10") }
    fn to_degrees(self) -> X { unmodelled("to_degrees") }
    fn to_radians(self) -> X { unmodelled("to_radians") }
    fn max(self, o: X) -> X { if self >= o { self } else { o } }
    fn min(self, o: X) -> X { if self <= o { self } else { o } }
    fn abs_sub(self, o: X) -> X { if self <= o { X::zero() } else { self - o } }
    fn cbrt(self) -> X { unmodelled("cbrt") }
    fn hypot(self, o: X) -> X { (self * self + o * o).sqrt() }
    fn sin(self) -> X { X::R(self.sin_cos_q().0) }
    fn cos(self) -> X { X::R(self.sin_cos_q().1) }
    fn tan(self) -> X { let (s, c) = self.sin_cos_q(); X::R(s.div(c)) }
    fn asin(self) -> X {
        let v = self.rat();
        // principal value in [-pi/2, pi/2]: cos >= 0
        X::lookup_inverse(|c, s, _| s == v && c.n >= 0).unwrap_or_else(|| unmodelled("asin outside the angle alphabet"))
    }
    fn acos(self) -> X {
        let v = self.rat();
        if v == Q::ONE { if let Some(t) = X::lookup_inverse(|c, s, _| c == Q::ONE && s.n == 0) { return t; } return X::R(Q::ZERO); }
        // principal value in [0, pi]: sin >= 0
        X::lookup_inverse(|c, s, _| c == v && s.n >= 0).unwrap_or_else(|| unmodelled("acos outside the angle alphabet"))
    }
    fn atan(self) -> X { unmodelled("atan") }
    fn atan2(self, o: X) -> X {
        let (y, x) = (self.rat(), o.rat());
        let h2 = x.mul(x).add(y.mul(y));
        let h = h2.sqrt_exact().unwrap_or_else(|| unmodelled("atan2 with irrational radius"));
        if h.n == 0 { return X::R(Q::ZERO); }
        let (c0, s0) = (x.div(h), y.div(h));
        X::lookup_inverse(|c, s, t| c == c0 && s == s0 && t.shadow().abs() <= std::f64::consts::PI + 1e-9)
            .unwrap_or_else(|| unmodelled("atan2 outside the angle alphabet"))
    }
    fn sin_cos(self) -> (X, X) { let (s, c) = self.sin_cos_q(); (X::R(s), X::R(c)) }
    fn exp_m1(self) -> X { unmodelled("exp_m1") }
    fn ln_1p(self) -> X { unmodelled("ln_1p") }
    fn sinh(self) -> X { unmodelled("sinh") }
    fn cosh(self) -> X { unmodelled("cosh") }
    fn tanh(self) -> X { unmodelled("tanh") }
    fn asinh(self) -> X { unmodelled("asinh") }
    fn acosh(self) -> X { unmodelled("acosh") }
    fn atanh(self) -> X { unmodelled("atanh") }
}

impl vek::num_traits::Signed for X {
    fn abs(&self) -> X { vek::num_traits::real::Real::abs(*self) }
    fn abs_sub(&self, o: &X) -> X { vek::num_traits::real::Real::abs_sub(*self, *o) }
    fn signum(&self) -> X { let q = self.rat(); qi(q.n.signum()) }
    fn is_positive(&self) -> bool { self.shadow() > 0.0 }
    fn is_negative(&self) -> bool { self.shadow() < 0.0 }
}

impl vek::ops::MulAdd<X, X> for X { type Output = X; fn mul_add(self, a: X, b: X) -> X { self * a + b } }

impl vek::ops::Clamp for X {
    fn clamped(self, lower: X, upper: X) -> X {
        assert!(lower <= upper);
        vek::ops::partial_min(vek::ops::partial_max(self, lower), upper)
    }
}
impl vek::ops::IsBetween for X {
    type Output = bool;
    fn is_between(self, lower: X, upper: X) -> bool { assert!(lower <= upper); lower <= self && self <= upper }
}
impl vek::ops::Lerp<X> for X {
    type Output = X;
    fn lerp_unclamped_precise(from: X, to: X, f: X) -> X { from * (X::one() - f) + to * f }
    fn lerp_unclamped(from: X, to: X, f: X) -> X { f * (to - from) + from }
}
impl<'a> vek::ops::Lerp<X> for &'a X {
    type Output = X;
    fn lerp_unclamped_precise(from: &X, to: &X, f: X) -> X { *from * (X::one() - f) + *to * f }
    fn lerp_unclamped(from: &X, to: &X, f: X) -> X { f * (*to - *from) + *from }
}
impl vek::ops::Wrap for X {
    fn wrapped(self, upper: X) -> X { assert!(upper > X::zero()); self - vek::num_traits::real::Real::floor(self / upper) * upper }
    fn wrapped_between(self, lower: X, upper: X) -> X {
        assert!(lower < upper); assert!(lower >= X::zero()); assert!(upper > X::zero());
        (self - lower).wrapped(upper - lower) + lower
    }
    fn pingpong(self, upper: X) -> X {
        assert!(upper > X::zero());
        let t = self.wrapped(upper + upper);
        upper - vek::num_traits::real::Real::abs(t - upper)
    }
}

impl approx::AbsDiffEq for X {
    type Epsilon = X;
    fn default_epsilon() -> X { X::R(Q::new(1, 1i128 << 52)) }
    fn abs_diff_eq(&self, o: &X, eps: X) -> bool {
        vek::num_traits::real::Real::abs(*self - *o) <= eps
    }
}
impl approx::RelativeEq for X {
    fn default_max_relative() -> X { X::R(Q::new(1, 1i128 << 52)) }
    fn relative_eq(&self, o: &X, eps: X, max_rel: X) -> bool {
        use vek::num_traits::real::Real;
        if self == o { return true; }
        let d = Real::abs(*self - *o);
        if d <= eps { return true; }
        let (a, b) = (Real::abs(*self), Real::abs(*o));
        let largest = if b > a { b } else { a };
        d <= largest * max_rel
    }
}
impl approx::UlpsEq for X {
    fn default_max_ulps() -> u32 { 4 }
    fn ulps_eq(&self, o: &X, eps: X, _: u32) -> bool { approx::AbsDiffEq::abs_diff_eq(self, o, eps) }
}
