//! Ledger of what a check explored, violations with replay files, known findings, evidence JSON,
//! exit codes (0 held / 1 VIOLATION / 2 machinery error).

use crate::q::Unmodelled;
use serde_json::{json, Value};
use std::collections::BTreeMap;
use std::panic::{catch_unwind, AssertUnwindSafe};
use std::sync::atomic::{AtomicU64, Ordering::Relaxed};
use std::sync::Mutex;
use std::time::Instant;

/// Output root (evidence/, replays/, known_findings.json). Overridable for scratch copies.
pub fn verif_dir() -> String { std::env::var("VX_VERIF_DIR").unwrap_or_else(|_| "/verif".to_string()) }
/// Label of a second build configuration of the same check (e.g. "relsem": overflow checks and debug assertions off).
/// A labelled run writes evidence_aux/<ID>.<label>.json and replays/<ID>-<label>/ and leaves the main files alone.
pub fn profile_label() -> Option<String> { std::env::var("VX_PROFILE_LABEL").ok().filter(|s| !s.is_empty()) }
/// What the binary was compiled with (the library under check is compiled with the same profile).
pub fn build_semantics() -> &'static str {
    if cfg!(debug_assertions) { "overflow-checks = on, debug-assertions = on (what `cargo test` gives vek)" } else { "overflow-checks = off, debug-assertions = off (release semantics: wrapping integer arithmetic, debug_assert! compiled out)" }
}

#[derive(Clone, Copy, PartialEq, Eq, Debug)]
pub enum Tier { Quick, Thorough }

#[derive(Debug)]
pub enum Caught { Unmodelled(&'static str), Panic(String) }

/// Run `f`, turning panics into values. `Unmodelled` payloads are kept apart from real panics.
pub fn catch<T>(f: impl FnOnce() -> T) -> Result<T, Caught> {
    match catch_unwind(AssertUnwindSafe(f)) {
        Ok(v) => Ok(v),
        Err(p) => {
            if let Some(u) = p.downcast_ref::<Unmodelled>() { return Err(Caught::Unmodelled(u.0)); }
            let msg = if let Some(s) = p.downcast_ref::<&str>() { s.to_string() }
                else if let Some(s) = p.downcast_ref::<String>() { s.clone() }
                else { "<non-string panic payload>".to_string() };
            Err(Caught::Panic(msg))
        }
    }
}
pub fn silence_panics() { std::panic::set_hook(Box::new(|_| {})); }

#[derive(Clone, Debug)]
pub struct Violation { pub section: String, pub site: String, pub class: String, pub detail: Value, pub weight: u64 }
impl Violation { pub fn key(&self) -> String { format!("{}|{}", self.site, self.class) } }

pub struct Section<'r> {
    pub name: String,
    pub rep: &'r Report,
    evals: AtomicU64,
    nontrivial: AtomicU64,
    unmodelled: AtomicU64,
    nsamples: AtomicU64,
    unmodelled_why: Mutex<BTreeMap<&'static str, u64>>,
    classes: Mutex<BTreeMap<String, u64>>,
    samples: Mutex<Vec<Value>>,
    meta: Mutex<BTreeMap<String, Value>>,
    required_classes: Mutex<Vec<String>>,
}

impl<'r> Section<'r> {
    /// one case evaluated; `nontrivial` per the section's stated rule
    #[inline] pub fn eval(&self, nontrivial: bool) { self.evals.fetch_add(1, Relaxed); if nontrivial { self.nontrivial.fetch_add(1, Relaxed); } }
    #[inline] pub fn evals(&self, n: u64, nontrivial: u64) { self.evals.fetch_add(n, Relaxed); self.nontrivial.fetch_add(nontrivial, Relaxed); }
    pub fn unmodelled(&self, why: &'static str) { self.unmodelled.fetch_add(1, Relaxed); *self.unmodelled_why.lock().unwrap().entry(why).or_insert(0) += 1; }
    /// vacuity guard: count a member of a declared case class
    pub fn class(&self, c: &str) { *self.classes.lock().unwrap().entry(c.to_string()).or_insert(0) += 1; }
    pub fn class_n(&self, c: &str, n: u64) { *self.classes.lock().unwrap().entry(c.to_string()).or_insert(0) += n; }
    pub fn require_classes(&self, cs: &[&str]) { self.required_classes.lock().unwrap().extend(cs.iter().map(|s| s.to_string())); }
    pub fn sample(&self, v: Value) { let mut s = self.samples.lock().unwrap(); if s.len() < 3 { s.push(v); self.nsamples.fetch_add(1, Relaxed); } }
    /// cheap test before building a sample value inside hot loops
    #[inline] pub fn wants_sample(&self) -> bool { self.nsamples.load(Relaxed) < 3 }
    pub fn meta(&self, k: &str, v: Value) { self.meta.lock().unwrap().insert(k.to_string(), v); }
    pub fn violation(&self, site: &str, class: &str, detail: Value) { self.violation_w(site, class, detail, 0) }
    /// `weight`: size of the input (number of deviations); the smallest is reported first
    pub fn violation_w(&self, site: &str, class: &str, detail: Value, weight: u64) {
        self.rep.push_violation(Violation { section: self.name.clone(), site: site.to_string(), class: class.to_string(), detail, weight });
    }
    /// Convenience: run the real call; classify unmodelled; a real panic is a violation of class "panic".
    pub fn call<T>(&self, site: &str, input: impl FnOnce() -> Value, f: impl FnOnce() -> T) -> Option<T> {
        match catch(f) {
            Ok(v) => Some(v),
            Err(Caught::Unmodelled(w)) => { self.unmodelled(w); None }
            Err(Caught::Panic(m)) => { self.violation(site, "panic", json!({"input": input(), "panic": m})); None }
        }
    }
    /// the completeness premise (branch-free ring arithmetic) failed at run time: the section stays a
    /// bounded check and says so in the evidence
    pub fn degrade(&self, why: &str) { self.meta("complete_degraded", json!(why)); }
    pub fn tier(&self) -> Tier { self.rep.tier }
    pub fn thorough(&self) -> bool { self.rep.tier == Tier::Thorough }
}

/// Flood gate: a change that makes (nearly) every case fail would otherwise spend minutes building and dropping violation details.
/// Once FLOOD_CAP violations have been reported the enumerators of `lattice.rs` skip their remaining points; the run exits 1 anyway
/// and the evidence lists the cap under `caps_hit`.  Never reached on a tree where the property holds.
pub static FLOOD: AtomicU64 = AtomicU64::new(0);
pub const FLOOD_CAP: u64 = 50_000;
pub fn flooded() -> bool { FLOOD.load(std::sync::atomic::Ordering::Relaxed) >= FLOOD_CAP }

pub struct Report {
    pub property: String,
    pub level: String,
    pub tier: Tier,
    pub seed: u64,
    pub replay: Option<Value>,
    start: Instant,
    sections: Mutex<Vec<Value>>,
    tot_evals: AtomicU64,
    tot_nontrivial: AtomicU64,
    tot_unmodelled: AtomicU64,
    violation_buckets: Mutex<BTreeMap<String, (Vec<Violation>, u64)>>,
    violation_counts: Mutex<BTreeMap<String, u64>>,
    machinery_errors: Mutex<Vec<String>>,
    samples: Mutex<Vec<Value>>,
    extra: Mutex<BTreeMap<String, Value>>,
    rules: Mutex<Vec<String>>,
    all_exhaustive: Mutex<bool>,
}

impl Report {
    /// Parses `--tier quick|thorough` (or env VERIF_TIER), `--replay <file>`, env VERIF_SEED.
    pub fn start(property: &str, level: &str) -> Report {
        silence_panics();
        let args: Vec<String> = std::env::args().collect();
        let mut tier = match std::env::var("VERIF_TIER").as_deref() { Ok("thorough") => Tier::Thorough, _ => Tier::Quick };
        let mut replay = None;
        let mut i = 1;
        while i < args.len() {
            match args[i].as_str() {
                "--tier" => { i += 1; tier = if args.get(i).map(|s| s.as_str()) == Some("thorough") { Tier::Thorough } else { Tier::Quick }; }
                "--replay" => { i += 1; let p = args.get(i).expect("--replay <file>"); let s = std::fs::read_to_string(p).expect("replay file"); replay = Some(serde_json::from_str::<Value>(&s).expect("replay json")); }
                _ => {}
            }
            i += 1;
        }
        if let Some(r) = &replay { if r["tier"] == "thorough" { tier = Tier::Thorough; } else { tier = Tier::Quick; } }
        let seed = std::env::var("VERIF_SEED").ok().and_then(|s| s.parse().ok()).unwrap_or(0);
        Report {
            property: property.to_string(), level: level.to_string(), tier, seed, replay, start: Instant::now(),
            sections: Mutex::new(Vec::new()), tot_evals: AtomicU64::new(0), tot_nontrivial: AtomicU64::new(0), tot_unmodelled: AtomicU64::new(0),
            violation_buckets: Mutex::new(BTreeMap::new()), violation_counts: Mutex::new(BTreeMap::new()), machinery_errors: Mutex::new(Vec::new()),
            samples: Mutex::new(Vec::new()), extra: Mutex::new(BTreeMap::new()), rules: Mutex::new(Vec::new()), all_exhaustive: Mutex::new(true),
        }
    }
    pub fn thorough(&self) -> bool { self.tier == Tier::Thorough }
    pub fn machinery_error(&self, m: String) { self.machinery_errors.lock().unwrap().push(m); }
    pub fn extra(&self, k: &str, v: Value) { self.extra.lock().unwrap().insert(k.to_string(), v); }
    fn push_violation(&self, v: Violation) {
        // occurrences of a listed known finding do not count towards the flood gate (some have tens of thousands on the unchanged tree)
        {
            static KNOWN: std::sync::OnceLock<std::collections::BTreeSet<String>> = std::sync::OnceLock::new();
            let known = KNOWN.get_or_init(|| load_known(&self.property).into_iter().map(|k| k.0).collect());
            if !known.contains(&v.key()) { FLOOD.fetch_add(1, std::sync::atomic::Ordering::Relaxed); }
        }
        // One bucket per kind (site|class): at most 40 kept, the 40 smallest inputs of the kind (the counterexample with the
        // fewest deviations survives).  O(1) per report once a bucket is full and the newcomer is not smaller than its largest
        // member, so a change that makes millions of cases fail costs seconds, not a quadratic scan under the lock.
        let key = v.key();
        let mut c = self.violation_counts.lock().unwrap();
        *c.entry(key.clone()).or_insert(0) += 1;
        drop(c);
        let mut bs = self.violation_buckets.lock().unwrap();
        let b = bs.entry(key).or_insert_with(|| (Vec::new(), 0));
        if b.0.len() < 40 { if v.weight > b.1 { b.1 = v.weight; } b.0.push(v); }
        else if v.weight < b.1 {
            if let Some((idx, _)) = b.0.iter().enumerate().max_by_key(|(_, o)| o.weight) { b.0[idx] = v; }
            b.1 = b.0.iter().map(|o| o.weight).max().unwrap_or(0);
        }
    }

    /// Run one named sub-check. `rule` states how cases are enumerated and what counts as
    /// non-trivial; `exhaustive`: the stated finite space was enumerated completely;
    /// `complete`: the enumeration is a decision procedure for *all* inputs (DESIGN 1.3).
    pub fn section(&self, name: &str, rule: &str, exhaustive: bool, complete: bool, f: impl FnOnce(&Section)) {
        if let Some(r) = &self.replay { if r["section"].as_str() != Some(name) { return; } }
        let s = Section {
            name: name.to_string(), rep: self, evals: AtomicU64::new(0), nontrivial: AtomicU64::new(0), unmodelled: AtomicU64::new(0), nsamples: AtomicU64::new(0),
            unmodelled_why: Mutex::new(BTreeMap::new()), classes: Mutex::new(BTreeMap::new()), samples: Mutex::new(Vec::new()),
            meta: Mutex::new(BTreeMap::new()), required_classes: Mutex::new(Vec::new()),
        };
        let t0 = Instant::now();
        if let Err(c) = catch(|| f(&s)) {
            self.machinery_error(format!("section '{}' aborted: {:?}", name, c));
        }
        let (e, nt, um) = (s.evals.load(Relaxed), s.nontrivial.load(Relaxed), s.unmodelled.load(Relaxed));
        self.tot_evals.fetch_add(e, Relaxed); self.tot_nontrivial.fetch_add(nt, Relaxed); self.tot_unmodelled.fetch_add(um, Relaxed);
        let classes = s.classes.lock().unwrap().clone();
        for rc in s.required_classes.lock().unwrap().iter() {
            if classes.get(rc).copied().unwrap_or(0) == 0 {
                self.machinery_error(format!("vacuity: section '{}' never exercised declared class '{}'", name, rc));
            }
        }
        if e == 0 { self.machinery_error(format!("vacuity: section '{}' evaluated nothing", name)); }
        if um * 2 > e.max(1) && um > 0 { self.machinery_error(format!("section '{}': unmodelled ratio too high ({} of {})", name, um, e)); }
        if !exhaustive { *self.all_exhaustive.lock().unwrap() = false; }
        let smp = s.samples.lock().unwrap().clone();
        { let mut g = self.samples.lock().unwrap(); if g.len() < 12 { if let Some(x) = smp.first() { g.push(json!({"section": name, "case": x})); } } }
        self.rules.lock().unwrap().push(format!("[{}] {}", name, rule));
        let why: BTreeMap<String, u64> = s.unmodelled_why.lock().unwrap().iter().map(|(k, v)| (k.to_string(), *v)).collect();
        self.sections.lock().unwrap().push(json!({
            "name": name, "rule": rule, "evaluations": e, "nontrivial": nt, "unmodelled": um, "unmodelled_reasons": why,
            "exhaustive": exhaustive, "complete_for_all_inputs": complete && !s.meta.lock().unwrap().contains_key("complete_degraded"), "classes": classes, "samples": smp,
            "meta": *s.meta.lock().unwrap(), "wall_s": t0.elapsed().as_secs_f64(),
        }));
    }

    /// Writes evidence and replay files, prints verdict lines, returns the process exit code.
    pub fn finish(self) -> i32 { self.finish_with(json!({})) }
    pub fn finish_with(self, level_keys: Value) -> i32 {
        let wall = self.start.elapsed().as_secs_f64();
        let known = load_known(&self.property);
        let mut viols: Vec<Violation> = self.violation_buckets.lock().unwrap().values().flat_map(|b| b.0.iter().cloned()).collect();
        viols.sort_by_key(|v| v.weight);
        let counts = self.violation_counts.lock().unwrap().clone();
        let mut exit = 0;
        let mut new_viol = 0u64;
        let mut known_hit: BTreeMap<String, u64> = BTreeMap::new();
        let label = profile_label();
        let suffix_dir = label.as_ref().map(|l| format!("-{}", l)).unwrap_or_default();
        let suffix_file = label.as_ref().map(|l| format!(".{}", l)).unwrap_or_default();
        let dir = format!("{}/replays/{}{}", verif_dir(), self.property, suffix_dir);
        let tier_s = if self.tier == Tier::Thorough { "thorough" } else { "quick" };

        if let Some(r) = &self.replay {
            // replay mode: did the recorded violation reappear identically?
            let same = viols.iter().any(|v| v.site == r["site"] && v.class == r["class"] && v.detail == r["detail"]);
            println!("REPLAY property={} section={:?} site={} class={} reproduced={}", self.property, r["section"], r["site"], r["class"], same);
            return if same { 1 } else { 0 };
        }

        let mut printed: BTreeMap<String, u64> = BTreeMap::new();
        let _ = std::fs::remove_dir_all(&dir);
        let mut file_no = 0;
        for v in &viols {
            let key = v.key();
            if let Some(k) = known.iter().find(|k| k.0 == key) {
                *known_hit.entry(format!("{} -- {}", k.0, k.1)).or_insert(0) = counts[&key];
                continue;
            }
            new_viol += 1;
            let p = printed.entry(key.clone()).or_insert(0);
            *p += 1;
            if *p > 3 { continue; }
            let _ = std::fs::create_dir_all(&dir);
            file_no += 1;
            let path = format!("{}/{}.json", dir, file_no);
            let body = json!({"property": self.property, "tier": tier_s, "section": v.section, "site": v.site, "class": v.class, "detail": v.detail, "occurrences_of_this_kind": counts[&key]});
            let _ = std::fs::write(&path, serde_json::to_string_pretty(&body).unwrap());
            println!("VIOLATION property={} replay={}", self.property, path);
            println!("  what: {} [{}] x{} :: {}", v.site, v.class, counts[&key], truncate(&v.detail.to_string(), 400));
            exit = 1;
        }
        for (k, n) in &known_hit { println!("KNOWN-FINDING: property={} {} (x{} this run)", self.property, k, n); }

        let merrs = self.machinery_errors.lock().unwrap().clone();
        for m in &merrs { eprintln!("MACHINERY-ERROR property={} {}", self.property, m); }
        if exit == 0 && !merrs.is_empty() { exit = 2; }

        let evals = self.tot_evals.load(Relaxed);
        let nontriv = self.tot_nontrivial.load(Relaxed);
        let mut coverage = json!({
            "evaluations": evals,
            "distinct_nontrivial": nontriv,
            "rule": self.rules.lock().unwrap().join("  ||  "),
            "samples": *self.samples.lock().unwrap(),
            "exhaustive": *self.all_exhaustive.lock().unwrap(),
            "unmodelled": self.tot_unmodelled.load(Relaxed),
            "sections": *self.sections.lock().unwrap(),
            "known_findings_seen": known_hit,
            "new_violation_kinds": printed.keys().collect::<Vec<_>>(),
            "machinery_errors": merrs,
            "caps_hit": if flooded() { json!([format!("violation flood: more than {} violations were reported, so the enumerators skipped their remaining points (the run fails either way; the counts above are those of the part explored)", FLOOD_CAP)]) } else { json!([]) },
        });
        coverage["build_semantics"] = json!(build_semantics());
        if let Some(l) = &label { coverage["profile_label"] = json!(l); }
        // a labelled run of the same check that the driver executed just before this one (thorough tiers of C12/C17...)
        if let Ok(p) = std::env::var("VX_MERGE_EVIDENCE") {
            for one in p.split(':').filter(|s| !s.is_empty()) {
                match std::fs::read_to_string(one).ok().and_then(|t| serde_json::from_str::<Value>(&t).ok()) {
                    Some(o) => {
                        let c = &o["coverage"];
                        let name = c["profile_label"].as_str().unwrap_or("other").to_string();
                        coverage[format!("second_configuration_{}", name)] = json!({"build_semantics": c["build_semantics"], "tier": o["tier"], "evaluations": c["evaluations"],
                            "distinct_nontrivial": c["distinct_nontrivial"], "unmodelled": c["unmodelled"], "violations": o["violations"], "known_findings_seen": c["known_findings_seen"],
                            "machinery_errors": c["machinery_errors"], "wall_s": o["wall_s"], "evidence_file": one});
                    }
                    None => { eprintln!("MACHINERY-ERROR property={} cannot read the evidence of the second configuration at {}", self.property, one); if exit == 0 { exit = 2; } }
                }
            }
        }
        for (k, v) in self.extra.lock().unwrap().iter() { coverage[k] = v.clone(); }
        if let Some(o) = level_keys.as_object() { for (k, v) in o { coverage[k] = v.clone(); } }
        let ev = json!({
            "property_id": self.property, "tier": tier_s, "seed": self.seed, "level": self.level,
            "coverage": coverage,
            "assumptions": [
                "rustc/LLVM compile vek and the harness faithfully; the harness element types implement exact arithmetic (overflow aborts the case as unmodelled)",
                "stable Rust has no specialisation: generic vek code computes the same ring expression for every element type (premise re-checked by the Deg run where 'complete' is claimed)",
            ],
            "wall_s": wall, "violations": new_viol,
        });
        // the main configuration owns evidence/<ID>.json; a labelled configuration writes next to it, in evidence_aux/
        let edir = if label.is_some() { "evidence_aux" } else { "evidence" };
        let _ = std::fs::create_dir_all(format!("{}/{}", verif_dir(), edir));
        let path = format!("{}/{}/{}{}.json", verif_dir(), edir, self.property, suffix_file);
        if let Err(e) = std::fs::write(&path, serde_json::to_string_pretty(&ev).unwrap()) { eprintln!("cannot write evidence: {}", e); if exit == 0 { exit = 2; } }
        println!("{}{} tier={} evaluations={} nontrivial={} unmodelled={} new_violations={} known_findings={} wall={:.1}s exit={}",
            self.property, label.as_ref().map(|l| format!("[{}]", l)).unwrap_or_default(), tier_s, evals, nontriv, self.tot_unmodelled.load(Relaxed), new_viol, known_hit.len(), wall, exit);
        exit
    }
}

fn truncate(s: &str, n: usize) -> String { if s.len() <= n { s.to_string() } else { format!("{}...", &s[..s.char_indices().take_while(|(i, _)| *i < n).last().map(|(i, c)| i + c.len_utf8()).unwrap_or(0)]) } }

/// known_findings.json: [{"status":"known"|"fixed","property":"Cxx","key":"site|class","what":"..."}]
/// Only `known` entries suppress; `fixed` entries suppress nothing.
fn load_known(property: &str) -> Vec<(String, String)> {
    let p = format!("{}/known_findings.json", verif_dir());
    let Ok(s) = std::fs::read_to_string(&p) else { return Vec::new() };
    let Ok(v) = serde_json::from_str::<Value>(&s) else { eprintln!("known_findings.json does not parse"); return Vec::new() };
    v.as_array().map(|a| a.iter().filter(|e| e["status"] == "known" && e["property"] == property)
        .map(|e| (e["key"].as_str().unwrap_or("").to_string(), e["what"].as_str().unwrap_or("").to_string())).collect()).unwrap_or_default()
}
