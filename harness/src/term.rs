//! `Term`: hash-consed free term algebra (per-thread arena). Every operator is an uninterpreted
//! constructor, so running a generic function on distinct `Term` variables shows exactly which
//! scalar operation was applied to which elements. `Sym`: opaque routing symbol.

use num_traits::{One, Zero};
use std::cell::RefCell;
use std::collections::HashMap;
use std::fmt;
use std::ops::*;

#[derive(Clone, PartialEq, Eq, Hash, Debug)]
pub enum Node {
    Var(u32),
    Const(i64),
    Un(&'static str, Term),
    Bin(&'static str, Term, Term),
    Tri(&'static str, Term, Term, Term),
}

#[derive(Clone, Copy, PartialEq, Eq, Hash, PartialOrd, Ord)]
pub struct Term(pub u32);

#[derive(Default)]
struct Arena { nodes: Vec<Node>, index: HashMap<Node, u32> }

thread_local! { static ARENA: RefCell<Arena> = RefCell::new(Arena::default()); }

impl Term {
    pub fn mk(n: Node) -> Term {
        ARENA.with(|a| {
            let mut a = a.borrow_mut();
            if let Some(&i) = a.index.get(&n) { return Term(i); }
            let i = a.nodes.len() as u32;
            a.nodes.push(n.clone());
            a.index.insert(n, i);
            Term(i)
        })
    }
    pub fn node(self) -> Node { ARENA.with(|a| a.borrow().nodes[self.0 as usize].clone()) }
    pub fn var(i: u32) -> Term { Term::mk(Node::Var(i)) }
    pub fn cst(i: i64) -> Term { Term::mk(Node::Const(i)) }
    pub fn un(op: &'static str, a: Term) -> Term { Term::mk(Node::Un(op, a)) }
    pub fn bin(op: &'static str, a: Term, b: Term) -> Term { Term::mk(Node::Bin(op, a, b)) }
    pub fn tri(op: &'static str, a: Term, b: Term, c: Term) -> Term { Term::mk(Node::Tri(op, a, b, c)) }
    pub fn reset() { ARENA.with(|a| *a.borrow_mut() = Arena::default()); }
    /// Flatten a tree of the associative-commutative operator `op` into the sorted multiset of
    /// its leaves (the reductions fix *which* elements are combined, not the association).
    pub fn ac_leaves(self, op: &'static str) -> Vec<Term> {
        let mut out = Vec::new();
        fn go(t: Term, op: &'static str, out: &mut Vec<Term>) {
            match t.node() {
                Node::Bin(o, a, b) if o == op => { go(a, op, out); go(b, op, out); }
                _ => out.push(t),
            }
        }
        go(self, op, &mut out);
        out.sort();
        out
    }
}
impl fmt::Debug for Term {
    fn fmt(&self, f: &mut fmt::Formatter) -> fmt::Result {
        match self.node() {
            Node::Var(i) => write!(f, "v{}", i),
            Node::Const(c) => write!(f, "{}", c),
            Node::Un(o, a) => write!(f, "{}({:?})", o, a),
            Node::Bin(o, a, b) => write!(f, "{}({:?},{:?})", o, a, b),
            Node::Tri(o, a, b, c) => write!(f, "{}({:?},{:?},{:?})", o, a, b, c),
        }
    }
}
impl fmt::Display for Term { fn fmt(&self, f: &mut fmt::Formatter) -> fmt::Result { fmt::Debug::fmt(self, f) } }
impl Default for Term { fn default() -> Term { Term::cst(0) } }

macro_rules! term_binop {
    ($($Tr:ident $f:ident $As:ident $af:ident $name:expr;)*) => { $(
        impl $Tr<Term> for Term { type Output = Term; fn $f(self, o: Term) -> Term { Term::bin($name, self, o) } }
        impl<'a> $Tr<&'a Term> for Term { type Output = Term; fn $f(self, o: &'a Term) -> Term { Term::bin($name, self, *o) } }
        impl<'a> $Tr<Term> for &'a Term { type Output = Term; fn $f(self, o: Term) -> Term { Term::bin($name, *self, o) } }
        impl<'a, 'b> $Tr<&'a Term> for &'b Term { type Output = Term; fn $f(self, o: &'a Term) -> Term { Term::bin($name, *self, *o) } }
        impl $As<Term> for Term { fn $af(&mut self, o: Term) { *self = Term::bin($name, *self, o); } }
    )* }
}
term_binop! {
    Add add AddAssign add_assign "add";
    Sub sub SubAssign sub_assign "sub";
    Mul mul MulAssign mul_assign "mul";
    Div div DivAssign div_assign "div";
    Rem rem RemAssign rem_assign "rem";
    Shl shl ShlAssign shl_assign "shl";
    Shr shr ShrAssign shr_assign "shr";
    BitAnd bitand BitAndAssign bitand_assign "and";
    BitOr bitor BitOrAssign bitor_assign "or";
    BitXor bitxor BitXorAssign bitxor_assign "xor";
}
impl Neg for Term { type Output = Term; fn neg(self) -> Term { Term::un("neg", self) } }
impl Not for Term { type Output = Term; fn not(self) -> Term { Term::un("not", self) } }

use vek::ops::MulAdd;
impl MulAdd<Term, Term> for Term { type Output = Term; fn mul_add(self, a: Term, b: Term) -> Term { Term::tri("fma", self, a, b) } }
impl<'a> MulAdd<&'a Term, Term> for Term { type Output = Term; fn mul_add(self, a: &'a Term, b: Term) -> Term { Term::tri("fma", self, *a, b) } }
impl<'b> MulAdd<Term, &'b Term> for Term { type Output = Term; fn mul_add(self, a: Term, b: &'b Term) -> Term { Term::tri("fma", self, a, *b) } }
impl<'a, 'b> MulAdd<&'a Term, &'b Term> for Term { type Output = Term; fn mul_add(self, a: &'a Term, b: &'b Term) -> Term { Term::tri("fma", self, *a, *b) } }
impl<'c> MulAdd<Term, Term> for &'c Term { type Output = Term; fn mul_add(self, a: Term, b: Term) -> Term { Term::tri("fma", *self, a, b) } }
impl<'a, 'c> MulAdd<&'a Term, Term> for &'c Term { type Output = Term; fn mul_add(self, a: &'a Term, b: Term) -> Term { Term::tri("fma", *self, *a, b) } }
impl<'b, 'c> MulAdd<Term, &'b Term> for &'c Term { type Output = Term; fn mul_add(self, a: Term, b: &'b Term) -> Term { Term::tri("fma", *self, a, *b) } }
impl<'a, 'b, 'c> MulAdd<&'a Term, &'b Term> for &'c Term { type Output = Term; fn mul_add(self, a: &'a Term, b: &'b Term) -> Term { Term::tri("fma", *self, *a, *b) } }

impl Zero for Term { fn zero() -> Term { Term::cst(0) } fn is_zero(&self) -> bool { *self == Term::cst(0) } }
impl One for Term { fn one() -> Term { Term::cst(1) } }
impl From<u8> for Term { fn from(v: u8) -> Term { Term::cst(v as i64) } }
impl vek::ops::ColorComponent for Term { fn full() -> Term { Term::cst(255) } }

/// Opaque symbol: 0 = Zero, 1 = One, other values are free generators. No arithmetic.
#[derive(Clone, Copy, PartialEq, Eq, Hash, PartialOrd, Ord, Default)]
pub struct Sym(pub u16);
impl fmt::Debug for Sym { fn fmt(&self, f: &mut fmt::Formatter) -> fmt::Result { write!(f, "s{}", self.0) } }
impl fmt::Display for Sym { fn fmt(&self, f: &mut fmt::Formatter) -> fmt::Result { write!(f, "s{}", self.0) } }
impl Add for Sym { type Output = Sym; fn add(self, _: Sym) -> Sym { crate::q::unmodelled("Sym arithmetic") } }
impl Mul for Sym { type Output = Sym; fn mul(self, _: Sym) -> Sym { crate::q::unmodelled("Sym arithmetic") } }
impl Zero for Sym { fn zero() -> Sym { Sym(0) } fn is_zero(&self) -> bool { self.0 == 0 } }
impl One for Sym { fn one() -> Sym { Sym(1) } }
impl vek::ops::ColorComponent for Sym { fn full() -> Sym { Sym(0xFFFF) } }
impl vek::num_traits::AsPrimitive<u32> for Sym { fn as_(self) -> u32 { self.0 as u32 } }
impl vek::num_traits::AsPrimitive<Sym> for u32 { fn as_(self) -> Sym { Sym(self as u16) } }

// ---- interpretation and spy impls for vek's own traits -------------------------------------------
impl Term {
    /// Interpret the term in exact arithmetic under an assignment of the variables.
    /// Uninterpreted spy nodes: lerp(from,to,f) = from + f(to-from), lerp_precise likewise,
    /// clamp(v,lo,hi).
    pub fn eval_x(self, env: &dyn Fn(u32) -> crate::q::X) -> crate::q::X {
        use crate::q::{qi, unmodelled};
        match self.node() {
            Node::Var(i) => env(i),
            Node::Const(c) => qi(c as i128),
            Node::Un("neg", a) => -a.eval_x(env),
            Node::Bin(op, a, b) => { let (a, b) = (a.eval_x(env), b.eval_x(env)); match op { "add" => a + b, "sub" => a - b, "mul" => a * b, "div" => a / b, "rem" => a % b, _ => unmodelled("uninterpreted binary node") } }
            Node::Tri(op, a, b, c) => { let (a, b, c) = (a.eval_x(env), b.eval_x(env), c.eval_x(env)); match op {
                "fma" => a * b + c,
                "lerp" | "lerp_precise" => a + c * (b - a),
                "clamp" => { if b > c { unmodelled("clamp with inverted bounds") } if a < b { b } else if a > c { c } else { a } }
                _ => unmodelled("uninterpreted ternary node") } }
            _ => unmodelled("uninterpreted node"),
        }
    }
    /// all variable indices occurring in the term
    pub fn vars(self) -> Vec<u32> {
        fn go(t: Term, out: &mut Vec<u32>) { match t.node() { Node::Var(i) => out.push(i), Node::Const(_) => {}, Node::Un(_, a) => go(a, out), Node::Bin(_, a, b) => { go(a, out); go(b, out) }, Node::Tri(_, a, b, c) => { go(a, out); go(b, out); go(c, out) } } }
        let mut v = Vec::new(); go(self, &mut v); v.sort(); v.dedup(); v
    }
}
impl vek::ops::Clamp for Term { fn clamped(self, lo: Term, hi: Term) -> Term { Term::tri("clamp", self, lo, hi) } }
impl vek::ops::Lerp<Term> for Term {
    type Output = Term;
    fn lerp_unclamped(from: Term, to: Term, f: Term) -> Term { Term::tri("lerp", from, to, f) }
    fn lerp_unclamped_precise(from: Term, to: Term, f: Term) -> Term { Term::tri("lerp_precise", from, to, f) }
}
impl<'a> vek::ops::Lerp<Term> for &'a Term {
    type Output = Term;
    fn lerp_unclamped(from: &Term, to: &Term, f: Term) -> Term { Term::tri("lerp", *from, *to, f) }
    fn lerp_unclamped_precise(from: &Term, to: &Term, f: Term) -> Term { Term::tri("lerp_precise", *from, *to, f) }
}
