//! `Tok`: a non-Copy, non-Clone element with a per-thread ownership ledger.
//! Every id is `Live` (owned by somebody), and becomes `Dropped` exactly once.  The harness marks
//! an id `Yielded` when the container hands it out; any later `Debug`/`PartialEq`/`Hash`
//! observation *made through the container* of a yielded or dropped id is flagged.

use std::cell::RefCell;
use std::fmt;
use std::hash::{Hash, Hasher};

#[derive(Clone, Copy, PartialEq, Eq, Debug)]
pub enum St { Live, Yielded, Dropped }

#[derive(Default)]
pub struct Ledger {
    pub st: Vec<St>,
    pub drops: Vec<u32>,
    /// violations noticed by the ledger itself
    pub faults: Vec<String>,
    /// when true, observations (Debug/Eq/Hash) of non-live ids are faults
    pub watch: bool,
    pub observed: Vec<u32>,
}

thread_local! { pub static LEDGER: RefCell<Ledger> = RefCell::new(Ledger::default()); }

pub fn reset() { LEDGER.with(|l| *l.borrow_mut() = Ledger::default()); }
pub fn set_watch(on: bool) { LEDGER.with(|l| l.borrow_mut().watch = on); }
pub fn state(id: u32) -> St { LEDGER.with(|l| l.borrow().st[id as usize]) }
pub fn mark_yielded(id: u32) { LEDGER.with(|l| { let mut l = l.borrow_mut(); if l.st[id as usize] == St::Live { l.st[id as usize] = St::Yielded; } }); }
pub fn faults() -> Vec<String> { LEDGER.with(|l| l.borrow().faults.clone()) }
pub fn take_observed() -> Vec<u32> { LEDGER.with(|l| std::mem::take(&mut l.borrow_mut().observed)) }
pub fn count() -> usize { LEDGER.with(|l| l.borrow().st.len()) }
pub fn dropped_ids() -> Vec<u32> { LEDGER.with(|l| l.borrow().drops.clone()) }
pub fn states() -> Vec<St> { LEDGER.with(|l| l.borrow().st.clone()) }

/// `id` identifies the allocation in the ledger; `val` is what `PartialEq`/`Hash` compare (equal to `id` unless built with `with_val`),
/// so that two containers can hold equal-looking but separately tracked elements.
pub struct Tok { pub id: u32, pub val: u32 }

impl Tok {
    pub fn new() -> Tok {
        LEDGER.with(|l| { let mut l = l.borrow_mut(); l.st.push(St::Live); let id = (l.st.len() - 1) as u32; Tok { id, val: id } })
    }
    pub fn with_val(val: u32) -> Tok { let mut t = Tok::new(); t.val = val; t }
    fn observe(&self, how: &str) {
        LEDGER.with(|l| {
            let mut l = l.borrow_mut();
            l.observed.push(self.id);
            if l.watch {
                let st = l.st.get(self.id as usize).copied();
                if st != Some(St::Live) {
                    l.faults.push(format!("{} read element {} which is {:?}", how, self.id, st));
                }
            }
        });
    }
}
impl Default for Tok { fn default() -> Tok { Tok::new() } }
impl Drop for Tok {
    fn drop(&mut self) {
        // never panic in drop
        let _ = LEDGER.try_with(|l| {
            if let Ok(mut l) = l.try_borrow_mut() {
                let id = self.id as usize;
                if id >= l.st.len() { l.faults.push(format!("drop of unknown element {}", id)); return; }
                if l.st[id] == St::Dropped { l.faults.push(format!("element {} dropped twice", id)); }
                l.st[id] = St::Dropped;
                l.drops.push(id as u32);
            }
        });
    }
}
impl fmt::Debug for Tok { fn fmt(&self, f: &mut fmt::Formatter) -> fmt::Result { self.observe("Debug"); write!(f, "t{}", self.id) } }
impl PartialEq for Tok { fn eq(&self, o: &Tok) -> bool { self.observe("PartialEq"); o.observe("PartialEq"); self.val == o.val } }
impl Eq for Tok {}
impl Hash for Tok { fn hash<H: Hasher>(&self, h: &mut H) { self.observe("Hash"); self.val.hash(h) } }
