#!/usr/bin/env python3
"""Development aid (not a verdict): lists public vek functions (from rustdoc JSON, so macro-generated names are
included) whose name is not mentioned by any check binary.  Usage: python3 tools/api_coverage.py"""
import json, re, glob, collections, subprocess, os
env = dict(os.environ, CARGO_TARGET_DIR="/verif/.build/doc", CARGO_NET_OFFLINE="true")
subprocess.run(["cargo", "+nightly", "rustdoc", "--offline", "--lib", "--features", "vec8 vec16 vec32 vec64 uv uvw mint bytemuck az", "--", "-Zunstable-options", "--output-format", "json"],
               cwd="/repo", env=env, stdout=subprocess.DEVNULL, stderr=subprocess.DEVNULL, check=True)
idx = json.load(open("/verif/.build/doc/doc/vek.json"))["index"]
where = collections.defaultdict(set)
for it in idx.values():
    if "function" in it.get("inner", {}) and it.get("name"):
        where[it["name"]].add(((it.get("span") or {}).get("filename") or "?").split("/")[-1])
hs = "".join(open(f).read() for f in glob.glob("/verif/harness/src/bin/*.rs") + glob.glob("/verif/harness/src/*.rs") + glob.glob("/verif/checks/digest/src/*.rs"))
by = collections.defaultdict(list)
for n in where:
    if not re.search(r"\b" + re.escape(n) + r"\b", hs):
        by[",".join(sorted(where[n]))].append(n)
print("public functions:", len(where))
for k, v in sorted(by.items()):
    print(k, len(v), " ".join(sorted(v)))
