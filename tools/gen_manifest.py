#!/usr/bin/env python3
"""Generates /verif/MANIFEST.json from tools/checks.json (one entry per claimed property)."""
import json, os
here = os.path.dirname(os.path.abspath(__file__))
root = os.path.dirname(here)
checks = json.load(open(os.path.join(here, "checks.json")))
props = [json.loads(l) for l in open(os.path.join(root, "properties.jsonl"))]
ids = [p["id"] for p in props]
out_checks, na = [], []
for pid in ids:
    c = checks.get(pid)
    if not c or c.get("not_applicable"):
        na.append({"property_id": pid, "reason": (c or {}).get("not_applicable", "check not built yet in this round (see DESIGN.md section 3 for the planned exploration)")})
        continue
    out_checks.append({
        "property_id": pid,
        "quick_cmd": f"./run {pid} --tier quick",
        "thorough_cmd": f"./run {pid} --tier thorough",
        "evidence_file": f"/verif/evidence/{pid}.json",
        "replay_cmd_template": f"./run {pid} --replay {{path}}",
        "engine": c["engine"],
        "level_claimed": {"category": c["category"], "text": c["text"], "design_ref": c.get("design_ref", f"DESIGN.md section 3, {pid}")},
        "level_note": c["note"],
        "technique": c["technique"],
    })
m = {
    "version": 1,
    "setup_cmd": "cd /verif/harness && CARGO_NET_OFFLINE=true CARGO_TARGET_DIR=/verif/.build/target cargo build --offline --release --bins && CARGO_NET_OFFLINE=true CARGO_TARGET_DIR=/verif/.build/target cargo build --offline --release --bin c20 --features az && CARGO_NET_OFFLINE=true CARGO_TARGET_DIR=/verif/.build/target cargo build --offline --profile relsem --bins && python3 /verif/checks/c20_driver.py --warm",
    "hooks": {
        "guard": "vek_verif",
        "enable": "none needed: every check observes vek through its public API and public fields; RUSTFLAGS=\"--cfg vek_verif\" is reserved and currently guards nothing",
        "baseline_off_cmd": "cd /repo && cargo nextest run --workspace --no-fail-fast --tool-config-file pb:/w/lib/nextest.toml --profile pb --test-threads 8 --offline",
        "source_commits": [],
        "add_only": True,
    },
    "engines": [
        {"name": "grid", "path": "/verif/harness/src (lattice.rs, report.rs, q.rs, fr.rs, term.rs)", "serves_properties": [p for p in ids if checks.get(p, {}).get("engine") == "grid"],
         "kind_free_text": "explorer G: exhaustive enumeration of bounded input/configuration spaces (simplex lattices, product grids, whole 8-bit domains) on the real generic vek code instantiated with exact / symbolic element types, compared with reference models on public fields"},
        {"name": "stateright", "path": "/verif/harness/src/bin (c03.rs, c07.rs, c18.rs)", "serves_properties": [p for p in ids if checks.get(p, {}).get("engine") == "stateright"],
         "kind_free_text": "explorer S: explicit-state BFS (stateright 0.31) over API call sequences / iterator histories; every transition executes the real vek functions and compares with a reference model"},
        {"name": "features", "path": "/verif/checks/c20_driver.py, /verif/checks/digest, /verif/harness/src/bin/c20.rs", "serves_properties": [p for p in ids if checks.get(p, {}).get("engine") == "features"],
         "kind_free_text": "explorer F: enumeration of cargo feature configurations, each built from /repo's working tree together with a behavioural digest program whose output is compared across configurations; plus explorer G sections (numeric lifts, casts, approx, mint/bytemuck) in the c20 binary"},
    ],
    "checks": out_checks,
    "not_applicable": na,
    "notes": "All checks rebuild vek from /repo's working tree (cargo path dependency). exit 0 held / 1 VIOLATION / 2 machinery error. Known findings: /verif/known_findings.json. Build profile as a configuration: thorough tiers (and the quick tiers of C12, C17, and of any property when tools/profile_sites.py finds a profile-dependent construct that is not in its baseline) run each check twice, built with overflow checks and debug assertions on and off; the second run writes evidence_aux/<ID>.relsem.json and replays/<ID>-relsem/.",
}
json.dump(m, open(os.path.join(root, "MANIFEST.json"), "w"), indent=1)
print("claimed:", [c["property_id"] for c in out_checks], "not_applicable:", len(na))
