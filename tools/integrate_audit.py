#!/usr/bin/env python3
"""tools/integrate_audit.py <PROPERTY>: take the audited/strengthened check from /tmp/sb-<id>, run it on the clean tree (must exit 0),
then re-run every seeded change of that property against it (all must still be caught). Prints a summary; reverts on failure."""
import glob, json, os, shutil, subprocess, sys
pid = sys.argv[1]; n = pid.lower()
src = f"/tmp/sb-{n}/harness/src/bin/{n}.rs"; dst = f"/verif/harness/src/bin/{n}.rs"
bak = dst + ".bak"
shutil.copy(dst, bak); shutil.copy(src, dst)
os.makedirs("/verif/audits", exist_ok=True)
if os.path.exists(f"/tmp/sb-{n}/out/AUDIT.md"): shutil.copy(f"/tmp/sb-{n}/out/AUDIT.md", f"/verif/audits/{pid}.md")
if os.path.exists(f"/tmp/sb-{n}/out/AUDIT2.md"): shutil.copy(f"/tmp/sb-{n}/out/AUDIT2.md", f"/verif/audits/{pid}-2.md")
def sh(c, cwd="/verif"): 
    r = subprocess.run(c, shell=True, cwd=cwd, stdout=subprocess.PIPE, stderr=subprocess.STDOUT, text=True); return r.returncode, r.stdout
assert sh("git diff --quiet", "/repo")[0] == 0, "/repo dirty"
rc, out = sh(f"./run {pid} --tier quick")
last = [l for l in out.splitlines() if l.startswith(pid + " tier=")]
print("clean tree:", rc, last[-1] if last else out[-400:])
ok = rc == 0
if ok:
    for m in sorted(glob.glob("/verif/seeded/*/meta.json")):
        meta = json.load(open(m))
        if meta.get("property") != pid: continue
        if meta.get("superseded_by"):   # the patch no longer applies to the repaired tree; its result stands on its base commit
            print(" seed", meta["seed_id"], "skipped (superseded by", meta["superseded_by"] + ")"); continue
        rc2, o2 = sh(f"python3 tools/verify_seed.py /tmp/none X {pid} {meta['seed_id']} --only-check")
        caught = '"caught_by_quick": true' in o2
        print(" seed", meta["seed_id"], "caught" if caught else "MISSED")
        ok = ok and caught
    sh(f"./run {pid} --tier quick")   # refresh evidence on the clean tree
if not ok:
    print("NOT OK: reverting to previous check (kept as", dst + ".rejected)")
    shutil.copy(dst, dst + ".rejected"); shutil.copy(bak, dst)
os.remove(bak)
sys.exit(0 if ok else 1)
