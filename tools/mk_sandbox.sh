#!/bin/bash
# tools/mk_sandbox.sh <name>: private copy of the harness + a scratch git worktree of /repo under /tmp/sb-<name>.
set -e
n="$1"; d="/tmp/sb-$n"
rm -rf "$d"; mkdir -p "$d/out"
git -C /repo worktree prune
git -C /repo worktree add --detach "$d/repo" HEAD >/dev/null 2>&1
rm -rf "$d/repo/target"
rsync -a --exclude target /verif/harness/ "$d/harness/"
sed -i "s#path = \"/repo\"#path = \"$d/repo\"#" "$d/harness/Cargo.toml"
sed -i "s#/verif/.build/target#$d/target#" "$d/harness/.cargo/config.toml"
cp /verif/known_findings.json "$d/out/known_findings.json"
cat > "$d/run" <<EOS
#!/bin/bash
# usage: $d/run <bin> [--tier quick|thorough]
cd $d/harness && CARGO_NET_OFFLINE=true cargo build --offline --release --bin "\$1" 2>&1 | grep -E "^(error|warning: unused)" -A8 | head -80
b="\$1"; shift
VX_VERIF_DIR=$d/out $d/target/release/\$b "\$@"
EOS
chmod +x "$d/run"
echo "$d"
