#!/bin/bash
# tools/mk_seed.sh <PROPERTY-ID> <tag>: scratch git worktree of /repo for a seeding sub-agent + a brief that contains
# ONLY the property record (nothing from /verif's machinery).
set -e
pid="$1"; tag="${2:-a}"; d="/tmp/seed-$pid-$tag"
rm -rf "$d"; git -C /repo worktree prune
git -C /repo worktree add --detach "$d" HEAD >/dev/null 2>&1
mkdir -p "$d/out"
python3 - "$pid" "$d" <<'P'
import json,sys,os
pid,d=sys.argv[1],sys.argv[2]
extra=""
if not d.endswith("-a") and os.path.exists("/tmp/used_sites.json"):  # rounds b, c: list what earlier rounds already did
    u=json.load(open("/tmp/used_sites.json")).get(pid,[])
    if u:
        extra=("\n## Already taken (another engineer did these; pick DIFFERENT functions and mechanisms)\n\n"+"\n".join("* "+x for x in u)+
          "\n\nGo for the less central parts of what the property covers: secondary functions named in the anchors, in-place (`&mut self`) twins, by-reference operand forms and trait impls for `&T`, "
          "one particular vector size or kind (Vec8..Vec64, Extent, Rgb/Rgba, Uv/Uvw - enable cargo features as needed and say so), one matrix size or layout, conversions between types, "
          "clamped vs unclamped / precise vs fast variants, deprecated aliases, degenerate-input branches, behaviour that only differs after a *sequence* of calls.\n")
        if d.endswith("-c") or d.endswith("-d") or d.endswith("-e") or d.endswith("-f") or d.endswith("-g"):
            extra+=("\nFor this round, make A and B come from two DIFFERENT categories of this list (say which): "
              "(1) a value-dependent shortcut - a fast path, early return, epsilon/threshold guard, clamp, saturating or sign-dependent branch that is right for ordinary values and wrong for some (zero, negative, tiny, huge, equal, NaN/inf where the statement covers them); "
              "(2) a numerically different but algebraically 'equivalent' rewrite that loses accuracy or overflows/underflows only for particular magnitudes or operand relations; "
              "(3) a change confined to one element type or one impl generated for a list of types (one of i8..u64/usize/isize, `Wrapping<_>`, f32 vs f64), to one vector kind/size, or to code behind an optional cargo feature; "
              "(4) two cooperating edits in different places, each of which looks harmless alone and which only together break the property; "
              "(5) a change in a shared private helper or macro arm that several public functions expand, visible through only some of them; "
              "(6) state/ordering: something that only differs on the second call, after an in-place mutation, or for a particular interleaving of calls on the same value.\n")
        if d.endswith("-d"):
            extra+=("\nThis is the fourth round: the obvious and the second-tier sites are taken.  Read the anchors of the property and the source around them for code nobody has touched yet "
              "(list the candidate functions first, cross off the ones above, then choose).  Favour slips that need a CONJUNCTION of two unusual conditions (a particular lane AND a particular sign; "
              "a degenerate operand AND the in-place form; one layout AND one argument order; a value next to a threshold AND a particular element type), and slips whose effect is SMALL "
              "(an off-by-one-ulp or off-by-one-unit result, a boundary treated as open instead of closed, a result that is right except exactly at a tie).\n")
        if d.endswith("-f"):
            extra+=("\nThis is the sixth round, and you only need to deliver change A (skip B entirely: no B.diff, B_demo.rs, B.md).  Go through the property STATEMENT phrase by phrase and through its quantifier text, "
              "and pick the phrase, operand form, element type, vector kind/size, matrix layout, cargo feature or build profile (e.g. behaviour that differs between debug and release builds) that you judge LEAST likely to be exercised by an "
              "automated checker that was written from this same statement - then break exactly that, as locally as possible.  Explain in A.md why you think a checker would overlook it.\n")
        if d.endswith("-g"):
            extra+=("\nThis is the seventh round, and you only need to deliver change A (skip B entirely: no B.diff, B_demo.rs, B.md).  Single-site slips in the anchored functions, their private helpers and the debug/release build profile are exhausted (see the list above). "
              "Choose ONE of these angles (say which) and stay inside what the property STATEMENT really covers: "
              "(a) a MULTI-STEP HISTORY: the statement holds for a fresh value but fails after a particular sequence of two or three public calls (an in-place method, then a conversion, then a read; an iterator advanced from both ends and then cloned/compared/collected; a matrix transposed in place and then indexed or multiplied); "
              "(b) TWO COOPERATING SITES in two different files or macro arms, each harmless alone (e.g. a helper changes its convention and only ONE of its callers is adapted); "
              "(c) an impl of a STANDARD TRAIT that the statement's wording covers (`Sum`/`Product`, `From`/`Into` tuples, arrays and slices, `Index`/`IndexMut`, `IntoIterator` for `&`/`&mut`, `Default`, `Zero`/`One`, `Display`, `Hash`, `PartialOrd`, `AsRef`/`AsMut`, `Deref`, `Mul`/`MulAssign` between different types, by-reference operator forms) for ONE particular type/size/layout only; "
              "(d) a rarely used ELEMENT TYPE or GENERIC INSTANTIATION (unsigned integers, `Wrapping<_>`, `bool` lanes, f32 vs f64, an element type that is not `Copy`-cheap or has size != alignment, a Vec of Vecs), where the generic code takes a different route; "
              "(e) an input that is legal but ODD for the statement (a degenerate/empty/inverted box, zero-length axis, factor exactly at 0 or 1 or beyond, NaN/infinite lanes where the statement covers floats, the most negative integer, an angle of exactly pi or 2 pi, a matrix that is singular or a reflection) and that hits only ONE lane, ONE row/column or ONE of several similar functions. "
              "Keep the edit small (a few lines), realistic, and such that a careful reviewer could plausibly approve it.\n")
        if d.endswith("-e") or d.endswith("-f"):
            extra+=("\nThis is the fifth round.  Everything above is taken, and single-site slips in the functions named by the anchors are largely exhausted.  Look instead at: "
              "code OUTSIDE the anchored functions that they depend on (private helpers, trait impls in src/ops.rs or src/vec.rs that the anchored code calls, `From`/`Into` conversions used internally, "
              "`Default`/`Zero`/`One` impls, macros' rarely-used arms); behaviour that depends on the HISTORY of a value (a second call, an in-place mutation followed by a read, a value that went through a conversion first); "
              "and operands in an unusual RELATION to each other (aliasing `a op a`, an argument equal to a field of `self`, equal bounds, exactly opposite or exactly equal vectors, a scalar equal to zero or one or minus one). "
              "Keep the effect as small and as local as you can while still being a clear violation of the statement.\n")
p=[json.loads(l) for l in open('/verif/properties.jsonl') if json.loads(l)['id']==pid][0]
open(d+'/out/BRIEF.md','w').write(f"""# Brief: seed two property-breaking changes into the `vek` crate

You are working in `{d}`, a private scratch git worktree of the Rust crate `vek` (a generic 2D/3D math library: vectors,
row/column-major matrices, quaternions, Bezier curves, geometry). Work ONLY inside `{d}` (never touch `/repo` or `/verif`,
do not read anything under `/verif`). There is no network; everything needed is installed. Every shell command prints a harmless
"WARNING conda..." line first; ignore it.

## The property

```json
{json.dumps(p,indent=1)}
```

{extra}
## What to produce

TWO independent source changes to vek (call them A and B; different mechanisms / different functions), each of which:

1. **breaks the property above** (makes vek violate the statement for some input / configuration / call sequence);
2. **still compiles** and **still passes the crate's existing test suite**, which is run with exactly
   `cd {d} && CARGO_TARGET_DIR={d}/target cargo nextest run --workspace --no-fail-fast --tool-config-file pb:/w/lib/nextest.toml --profile pb --test-threads 8 --offline`
   (674 tests must pass; run it yourself with the change applied);
3. is **realistic** - the kind of slip a maintainer could make in a refactor or an "optimisation" (a wrong index/lane in one macro
   arm, a sign, operand order, an off-by-one in a boundary comparison, a dropped normalisation, a fast path that is wrong for an
   unusual case, a change in only one of row-major/column-major, only the in-place twin, only one element type or one vector size,
   two sites that each look fine alone) - not gratuitous sabotage, and touching only `src/`;
4. **needs something specific to manifest**: an unusual input (off-centre, degenerate, antiparallel, boundary value, a particular lane
   of a wide vector, a negative or huge value), a particular configuration (one layout, one type, one cargo feature), or a multi-step
   sequence of calls - NOT something that any ordinary use would expose at once. Prefer subtle over blatant; make A and B differ in
   what they need.

For each change also write a **demonstration**: a self-contained Rust integration test file (uses only `vek` and `std`; the crate has
no dev-dependencies) that **passes on the unmodified crate and fails with the change applied**. Check both yourself by placing it at
`{d}/tests/seed_demo.rs` and running `cd {d} && CARGO_TARGET_DIR={d}/target cargo test --offline --test seed_demo` with and without
the change (features: default; if you need another cargo feature, say so and pass `--features`).
The demonstration must assert behaviour that the property statement actually requires.

## Deliverables (files)

* `{d}/out/A.diff` and `{d}/out/B.diff`: `git diff -- src` of each change alone, relative to the unmodified HEAD (each must apply
  cleanly with `git apply` on a clean checkout; they must not include the demo file).
* `{d}/out/A_demo.rs` and `{d}/out/B_demo.rs`: the demonstration tests.
* `{d}/out/A.md` and `{d}/out/B.md`: 5-10 lines each: what was changed, why it breaks the property, what exactly is needed for it to
  manifest, what you ran and saw (test-suite result with the change; demo result with and without).
* Leave the worktree itself clean at the end (`git -C {d} checkout -- . && rm -f {d}/tests/seed_demo.rs`), keeping only `out/`.

Your final message: a short summary of A and B (one paragraph each) and the verification you did.
""")
P
echo "$d"
