#!/usr/bin/env python3
"""tools/profile_sites.py [--write|--check|--list] [repo]

The build profile (overflow checks / debug assertions on or off) is one of the enumerated configurations of the checks.
A release-semantics build can behave differently from the `cargo test` build WITHOUT the latter failing only through
constructs that are compiled differently under the two profiles: `debug_assert*!` (its arguments are not even evaluated
in release), `cfg(debug_assertions)` / `cfg!(debug_assertions)`, `cfg(overflow_checks)`.  (Plain arithmetic overflow is
profile dependent too, but there the debug build panics, which the main configuration already reports.)

This script extracts every such site of <repo>/src (the full balanced argument text of each debug_assert, and a window
around each cfg mention), whitespace-normalised, without line numbers.  `--write` stores the list as the baseline
(tools/profile_sites.baseline.json, committed; generated on the unchanged tree, where all 20 checks pass under both
profiles).  `--check` exits 0 when the working tree has exactly the baseline's sites and 1 otherwise; ./run then adds the
release-semantics configuration to the QUICK tier of every property (the thorough tier always runs it)."""
import json, os, re, sys

HERE = os.path.dirname(os.path.abspath(__file__))
BASE = os.path.join(HERE, "profile_sites.baseline.json")

def balanced(text, i):
    """text[i] == '(' -> index just past the matching ')' (strings and chars are skipped crudely but safely enough)"""
    depth, j, n = 0, i, len(text)
    while j < n:
        c = text[j]
        if c == '"':
            j += 1
            while j < n and text[j] != '"':
                j += 2 if text[j] == '\\' else 1
        elif c == '(':
            depth += 1
        elif c == ')':
            depth -= 1
            if depth == 0:
                return j + 1
        j += 1
    return n

def sites(repo):
    out = []
    for root, _, files in os.walk(os.path.join(repo, "src")):
        for f in sorted(files):
            if not f.endswith(".rs"): continue
            p = os.path.join(root, f)
            rel = os.path.relpath(p, repo)
            t = open(p, encoding="utf-8", errors="replace").read()
            for m in re.finditer(r"\bdebug_assert(?:_eq|_ne)?!\s*\(", t):
                e = balanced(t, m.end() - 1)
                # the statement that CONTAINS the macro matters too (a debug_assert nested in an expression)
                ls = t.rfind("\n", 0, m.start()) + 1
                out.append((rel, "debug_assert", " ".join(t[ls:e].split())))
            for m in re.finditer(r"debug_assertions|overflow_checks", t):
                ls = t.rfind("\n", 0, m.start()) + 1
                le = m.end()
                for _ in range(4):
                    k = t.find("\n", le + 1)
                    le = k if k != -1 else len(t)
                out.append((rel, "cfg", " ".join(t[ls:le].split())))
    return sorted(out)

def main():
    a = sys.argv[1:]
    mode = a[0] if a else "--list"
    repo = a[1] if len(a) > 1 else "/repo"
    s = [list(x) for x in sites(repo)]
    if mode == "--write":
        json.dump(s, open(BASE, "w"), indent=0)
        print(f"{len(s)} profile-dependent sites written to {BASE}")
    elif mode == "--check":
        try:
            b = json.load(open(BASE))
        except Exception as e:
            print("profile_sites: no baseline (%s)" % e); sys.exit(1)
        if s == b:
            sys.exit(0)
        new = [x for x in s if x not in b]; gone = [x for x in b if x not in s]
        print("profile-dependent constructs differ from the baseline: +%d -%d" % (len(new), len(gone)))
        for x in new[:4]: print("  + %s: %s" % (x[0], x[2][:160]))
        for x in gone[:4]: print("  - %s: %s" % (x[0], x[2][:160]))
        sys.exit(1)
    else:
        for x in s: print(x[0], x[1], x[2][:200])
        print(len(s), "sites")

if __name__ == "__main__":
    main()
