#!/bin/bash
n="$1"; d="/tmp/sb-$n"
git -C /repo worktree remove --force "$d/repo" 2>/dev/null || true
rm -rf "$d"; git -C /repo worktree prune
