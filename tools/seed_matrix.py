#!/usr/bin/env python3
"""Writes /verif/seeded/MATRIX.md from seeded/*/meta.json (which check catches which seeded change)."""
import json, glob, os
rows = []
for f in sorted(glob.glob("/verif/seeded/*/meta.json")):
    m = json.load(open(f))
    note = ""
    p = os.path.join(os.path.dirname(f), "author_note.md")
    if os.path.exists(p):
        txt = [l.strip() for l in open(p).read().splitlines() if l.strip() and not l.startswith("#")]
        note = (txt[0] if txt else "")[:160].replace("|", "/")
    chk = m.get("checks", {})
    res = "; ".join(f"{k}: exit {v['exit']}" + (f" ({v['first_what'][0][6:110]})" if v.get("first_what") else "") for k, v in chk.items())
    rows.append((m.get("seed_id"), m.get("property"), "yes" if m.get("confirmed") else "NO", "caught" if m.get("caught_by_quick") else "MISSED", note, res.replace("|", "/")))
with open("/verif/seeded/MATRIX.md", "w") as o:
    o.write("# Seeded property-breaking changes (written by fresh sub-agents from the property text only) vs the quick checks\n\n")
    o.write("`confirmed` = patch applies, the 674 pinned tests still pass with it, the author's demo passes without it and fails with it (re-run by tools/verify_seed.py).\n\n")
    o.write("| seed | property | confirmed | quick check | what was changed | check result |\n|---|---|---|---|---|---|\n")
    for r in rows:
        o.write("| " + " | ".join(str(x) for x in r) + " |\n")
    c = sum(1 for r in rows if r[3] == "caught"); n = len(rows)
    o.write(f"\n{c} of {n} caught by the quick tier.\n")
print(open("/verif/seeded/MATRIX.md").read()[-300:])
