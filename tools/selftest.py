#!/usr/bin/env python3
"""tools/selftest.py [PROPERTY...]: regression test of the machinery itself - re-runs every seeded property-breaking change
(seeded/*/patch.diff) against the quick check of its property (apply to /repo, ./run, restore) and reports which are caught.
Seeds marked `superseded_by` (their patch no longer applies to the repaired tree) are skipped and listed."""
import glob, json, subprocess, sys
want = set(sys.argv[1:])
res = []
for m in sorted(glob.glob("/verif/seeded/*/meta.json")):
    meta = json.load(open(m))
    if want and meta["property"] not in want: continue
    if meta.get("superseded_by"): res.append((meta["seed_id"], meta["property"], "superseded by " + meta["superseded_by"])); continue
    o = subprocess.run(f"python3 tools/verify_seed.py /tmp/none X {meta['property']} {meta['seed_id']} --only-check", shell=True, cwd="/verif", stdout=subprocess.PIPE, stderr=subprocess.STDOUT, text=True).stdout
    res.append((meta["seed_id"], meta["property"], "caught" if '"caught_by_quick": true' in o else "MISSED"))
    print(*res[-1], flush=True)
bad = [r for r in res if r[2] == "MISSED"]
print(f"{sum(1 for r in res if r[2]=='caught')} caught, {len(bad)} missed, {sum(1 for r in res if r[2].startswith('superseded'))} superseded")
sys.exit(1 if bad else 0)
