#!/bin/bash
# tools/try_mutant.sh <PROPERTY> <file> <sed-expression> : apply to /repo, run quick check, revert. Prints exit code.
id="$1"; f="$2"; e="$3"
cd /repo && git diff --quiet || { echo "/repo is dirty"; exit 9; }
sed -i "$e" "$f"
if git diff --quiet; then echo "MUTANT DID NOT CHANGE ANYTHING"; exit 8; fi
git diff --stat | tail -1
cd /verif && ./run "$id" > /tmp/mutant.out 2>&1; rc=$?
grep -m2 -A1 "^VIOLATION" /tmp/mutant.out | cut -c1-300
grep -m3 "MACHINERY" /tmp/mutant.out | cut -c1-300
tail -1 /tmp/mutant.out
git -C /repo checkout -- .
echo "exit=$rc"
