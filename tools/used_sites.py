#!/usr/bin/env python3
"""tools/used_sites.py: writes /tmp/used_sites.json = per property, the headline of every seeded change kept so far
(first heading line of each seeded/<id>/author_note.md), so that the next seeding round's brief can list them as taken."""
import json, os, re, glob
out = {}
for d in sorted(glob.glob('/verif/seeded/S*') + glob.glob('/verif/seeded/_rejected/S*')):
    m = os.path.join(d, 'meta.json'); n = os.path.join(d, 'author_note.md')
    if not os.path.exists(m): continue
    pid = json.load(open(m)).get('property')
    head = None
    if os.path.exists(n):
        for l in open(n):
            l = l.strip()
            if l.startswith('#'):
                head = l.lstrip('# ').strip(); break
        if head is None:
            head = open(n).read().strip().splitlines()[0][:200]
    if head is None:
        # fall back to the files and first added line of the patch
        p = open(os.path.join(d, 'patch.diff')).read()
        fn = re.findall(r'^\+\+\+ b/(\S+)', p, re.M)
        head = 'change in ' + ', '.join(fn)
    out.setdefault(pid, []).append(head[:220])
json.dump(out, open('/tmp/used_sites.json', 'w'), indent=1)
print({k: len(v) for k, v in sorted(out.items())})
