#!/usr/bin/env python3
"""tools/verify_round.py <tag> <idA> <idB> [PID ...]: run tools/verify_seed.py for every finished /tmp/seed-<PID>-<tag> (out/A.diff and
out/B.diff present) whose seeds are not in /verif/seeded yet.  Seed ids: S<nn><idA> for change A, S<nn><idB> for change B.
Sequential: verify_seed applies each patch to /repo."""
import glob, os, re, subprocess, sys
tag, ia, ib = sys.argv[1:4]
only = sys.argv[4:]
for d in sorted(glob.glob(f'/tmp/seed-C*-{tag}')):
    pid = re.search(r'seed-(C\d\d)-', d).group(1)
    if only and pid not in only: continue
    for ab, suf in (('A', ia), ('B', ib)):
        sid = f'S{pid[1:]}{suf}'
        if os.path.exists(f'/verif/seeded/{sid}/meta.json'): continue
        if not os.path.exists(f'{d}/out/{ab}.diff'): print(sid, 'not ready'); continue
        note = open(f'{d}/out/{ab}.md').read() if os.path.exists(f'{d}/out/{ab}.md') else ''
        args = []
        m = re.search(r'--features[ =]([A-Za-z0-9_,]+)', note)
        demo = open(f'{d}/out/{ab}_demo.rs').read()
        m2 = re.search(r'--features[ =]([A-Za-z0-9_,]+)', demo)
        f = (m2 or m)
        if f and f.group(1) not in ('default',): args = ['--features', f.group(1)]
        r = subprocess.run(['python3', '/verif/tools/verify_seed.py', d, ab, pid, sid] + args, stdout=subprocess.PIPE, stderr=subprocess.STDOUT, text=True)
        print(r.stdout.strip().splitlines()[-1][:400] if r.stdout.strip() else f'{sid}: no output', flush=True)
