#!/usr/bin/env python3
"""tools/verify_round_par.py <tag> <idA> <idB> [PID ...]: like verify_round.py, but the confirmation steps 1-4 of verify_seed.py
(demo without / suite with / demo with the change - all inside the seed's own worktree and target directory) run for several
seeds in parallel (phase 1, --no-check); only step 5 (apply to /repo, run our quick check, restore) is sequential (phase 2,
--only-check).  Seed ids: S<nn><idA> for change A, S<nn><idB> for change B."""
import glob, os, re, subprocess, sys
from concurrent.futures import ThreadPoolExecutor
tag, ia, ib = sys.argv[1:4]
only = [a for a in sys.argv[4:] if not a.startswith('--')]
jobs = []
for d in sorted(glob.glob(f'/tmp/seed-C*-{tag}')):
    pid = re.search(r'seed-(C\d\d)-', d).group(1)
    if only and pid not in only: continue
    for ab, suf in (('A', ia), ('B', ib)):
        sid = f'S{pid[1:]}{suf}'
        if os.path.exists(f'/verif/seeded/{sid}/meta.json') and 'checks' in open(f'/verif/seeded/{sid}/meta.json').read(): continue
        if not os.path.exists(f'{d}/out/{ab}.diff') or not os.path.exists(f'{d}/out/{ab}_demo.rs'): print(sid, 'not ready'); continue
        note = open(f'{d}/out/{ab}.md').read() if os.path.exists(f'{d}/out/{ab}.md') else ''
        demo = open(f'{d}/out/{ab}_demo.rs').read()
        f = re.search(r'--features[ =]([A-Za-z0-9_,]+)', demo) or re.search(r'--features[ =]([A-Za-z0-9_,]+)', note)
        args = ['--features', f.group(1)] if f and f.group(1) not in ('default',) else []
        if re.search(r'cargo test[^\n`]*--release', demo + note):   # a change that only shows without debug assertions
            args = ['--demo-args', '--release' + (' --features ' + f.group(1) if args else '')]
        jobs.append((d, ab, pid, sid, args))

def phase1(j):
    d, ab, pid, sid, args = j
    if os.path.exists(f'/verif/seeded/{sid}/meta.json'): return sid, 'already confirmed'
    r = subprocess.run(['python3', '/verif/tools/verify_seed.py', d, ab, pid, sid, '--no-check'] + args, stdout=subprocess.PIPE, stderr=subprocess.STDOUT, text=True)
    return sid, (r.stdout.strip().splitlines() or ['no output'])[-1][:300]

# two seeds of one worktree share its target directory: serialise A and B of a property, parallelise across properties
by_wt = {}
for j in jobs: by_wt.setdefault(j[0], []).append(j)
def per_wt(js): return [phase1(j) for j in js]
with ThreadPoolExecutor(max_workers=4) as ex:
    for res in ex.map(per_wt, by_wt.values()):
        for sid, line in res: print('phase1', sid, line, flush=True)
for d, ab, pid, sid, args in jobs:
    r = subprocess.run(['python3', '/verif/tools/verify_seed.py', d, ab, pid, sid, '--only-check'], stdout=subprocess.PIPE, stderr=subprocess.STDOUT, text=True)
    print('phase2', (r.stdout.strip().splitlines() or [f'{sid}: no output'])[-1][:400], flush=True)
