#!/usr/bin/env python3
"""tools/verify_seed.py <seed-worktree> <A|B> <PROPERTY> <seed-id> [--features f]

Independent confirmation of a seeded property-breaking change produced by a sub-agent, then a run of
our quick check against it.  Steps (all outputs recorded in /verif/seeded/<seed-id>/meta.json):
  1. worktree clean at HEAD + demo           -> demo must PASS
  2. git apply <X>.diff; pinned suite        -> 674 tests must pass
  3. demo with the change                    -> demo must FAIL
  4. worktree restored
  5. git -C /repo apply; ./run <PROPERTY> --tier quick; git -C /repo checkout -- .   -> expect exit 1 + VIOLATION
"""
import json, os, re, shutil, subprocess, sys, time

def sh(cmd, cwd=None, timeout=3600, env=None):
    r = subprocess.run(cmd, shell=True, cwd=cwd, stdout=subprocess.PIPE, stderr=subprocess.STDOUT, text=True, timeout=timeout, env=env)
    return r.returncode, r.stdout

def main():
    wt, ab, pid, sid = sys.argv[1:5]
    feats = ""
    if "--features" in sys.argv:
        feats = " --features " + sys.argv[sys.argv.index("--features") + 1]
    if "--demo-args" in sys.argv:   # e.g. "--no-default-features --features std,rgba,image"
        feats = " " + sys.argv[sys.argv.index("--demo-args") + 1]
    only_check = "--only-check" in sys.argv
    no_check = "--no-check" in sys.argv    # steps 1-4 only (they live in the seed's own worktree, so several can run in parallel)
    out = os.path.join(wt, "out")
    patch, demo, note = (os.path.join(out, f"{ab}{s}") for s in (".diff", "_demo.rs", ".md"))
    dest = f"/verif/seeded/{sid}"
    os.makedirs(dest, exist_ok=True)
    meta_path = os.path.join(dest, "meta.json")
    meta = json.load(open(meta_path)) if os.path.exists(meta_path) else {}
    env = dict(os.environ, CARGO_TARGET_DIR=os.path.join(wt, "target"), CARGO_NET_OFFLINE="true")
    if not only_check:
        for f in (patch, demo):
            if not os.path.exists(f):
                print("missing", f); sys.exit(3)
        shutil.copy(patch, os.path.join(dest, "patch.diff")); shutil.copy(demo, os.path.join(dest, "demo.rs"))
        if os.path.exists(note): shutil.copy(note, os.path.join(dest, "author_note.md"))
        sh("git checkout -- . && git clean -fdq -- tests src", cwd=wt)
        os.makedirs(os.path.join(wt, "tests"), exist_ok=True)
        shutil.copy(demo, os.path.join(wt, "tests", "seed_demo.rs"))
        demo_cmd = f"cargo test --offline --test seed_demo{feats}"
        rc0, o0 = sh(demo_cmd, cwd=wt, env=env)
        os.remove(os.path.join(wt, "tests", "seed_demo.rs"))
        rca, oa = sh(f"git apply {patch}", cwd=wt)
        files = sh("git diff --stat", cwd=wt)[1].strip().splitlines()
        suite_cmd = "cargo nextest run --workspace --no-fail-fast --tool-config-file pb:/w/lib/nextest.toml --profile pb --test-threads 8 --offline"
        rcs, os_ = sh(suite_cmd, cwd=wt, env=env)
        m = re.search(r"(\d+) tests run: (\d+) passed", os_)
        shutil.copy(demo, os.path.join(wt, "tests", "seed_demo.rs"))
        rc1, o1 = sh(demo_cmd, cwd=wt, env=env)
        os.remove(os.path.join(wt, "tests", "seed_demo.rs"))
        sh("git checkout -- .", cwd=wt)
        meta.update({
            "seed_id": sid, "property": pid, "author": "fresh sub-agent given only the property record and a scratch worktree",
            "patch_applies": rca == 0, "files_changed": files[-1] if files else "",
            "demo_without_change": {"cmd": demo_cmd, "exit": rc0, "passes": rc0 == 0},
            "suite_with_change": {"cmd": suite_cmd, "exit": rcs, "summary": m.group(0) if m else os_[-300:], "all_674_pass": bool(m) and m.group(1) == "674" and m.group(2) == "674" and rcs == 0},
            "demo_with_change": {"exit": rc1, "fails": rc1 != 0, "tail": "\n".join([l for l in o1.splitlines() if "panicked" in l or "assert" in l][:4])},
        })
        meta["confirmed"] = bool(meta["patch_applies"] and meta["demo_without_change"]["passes"] and meta["suite_with_change"]["all_674_pass"] and meta["demo_with_change"]["fails"])
        if rc0 != 0: meta["demo_without_change"]["tail"] = o0[-600:]
    if no_check:
        json.dump(meta, open(meta_path, "w"), indent=1)
        print(json.dumps({k: meta[k] for k in ("seed_id", "confirmed") if k in meta})); return
    # 5. our check against it
    rcd, _ = sh("git diff --quiet", cwd="/repo")
    if rcd != 0:
        print("/repo is dirty; refusing"); sys.exit(4)
    p = os.path.join(dest, "patch.diff")
    rca, oa = sh(f"git apply {p}", cwd="/repo")
    try:
        t0 = time.time()
        rcc, oc = sh(f"./run {pid} --tier quick", cwd="/verif")
        wall = time.time() - t0
    finally:
        sh("git checkout -- .", cwd="/repo")
    viol = [l for l in oc.splitlines() if l.startswith("VIOLATION")]
    what = [l.strip()[:300] for l in oc.splitlines() if l.strip().startswith("what:")]
    meta.setdefault("checks", {})[pid] = {"cmd": f"git -C /repo apply {p} && ./run {pid} --tier quick ; git -C /repo checkout -- .", "exit": rcc, "violation_lines": len(viol), "first_what": what[:2], "wall_s": round(wall, 1),
                                          "machinery": [l[:200] for l in oc.splitlines() if "MACHINERY" in l][:3]}
    meta["caught_by_quick"] = rcc == 1 and len(viol) > 0
    json.dump(meta, open(meta_path, "w"), indent=1)
    # evidence files were rewritten by the mutant run: restore the committed ones
    sh(f"git checkout -- evidence/{pid}.json", cwd="/verif")
    print(json.dumps({k: meta[k] for k in ("seed_id", "confirmed", "caught_by_quick") if k in meta}), meta["checks"][pid]["exit"], what[:1])

if __name__ == "__main__":
    main()
